#!/venv/bin/python
"""Cross-validation of the trusted N-core barrier machine (machines/cores.py) used by C13 / C15.

For every pair of per-core event lists over a small alphabet (ops reading / writing buffers a, b; barriers) up to a length bound:
  (1) an independent recursive enumeration of ALL interleavings (no state hashing, no BFS) must give the same set of final memories and the
      same deadlock verdict as cores.explore;
  (2) for a slice of the pairs a generated Promela model of the same barrier semantics is explored by SPIN: every final memory SPIN can reach
      (reported through one assert(false) trail per terminal state) must be in the explorer's outcome set and vice versa.
Exit 0 = agreement on everything; prints counts. Not a property check: it guards the harness itself (DESIGN.md 2.3).
usage: cores_vs_spin.py [--spin N]   (N = number of pairs also run through SPIN, default 40)
"""
import itertools
import os
import re
import shutil
import subprocess
import sys
import tempfile

sys.path.insert(0, os.path.dirname(os.path.dirname(os.path.abspath(__file__))))
from machines import cores as CM  # noqa: E402

BUFS = ["a", "b"]
ALPHA = [("op", None, (r,), (w,), "compute") for r in BUFS for w in BUFS] + [("barrier",)]


def lists(maxlen):
    for n in range(0, maxlen + 1):
        for seq in itertools.product(range(len(ALPHA)), repeat=n):
            yield seq


def mk(seq, core):
    out = []
    for k, i in enumerate(seq):
        e = ALPHA[i]
        out.append(("barrier",) if e[0] == "barrier" else ("op", (core * 10 + k, 1), e[2], e[3], e[4]))
    return out


def brute(ls, init):
    """all interleavings, recursively; barrier: all cores must be at a barrier (finished cores never arrive -> deadlock)"""
    finals, dead = set(), [False]

    def rec(pos, mem):
        at_b = [p < len(l) and l[p][0] == "barrier" for p, l in zip(pos, ls)]
        done = [p >= len(l) for p, l in zip(pos, ls)]
        movers = [c for c in range(len(ls)) if not done[c] and not at_b[c]]
        if not movers:
            if all(done):
                finals.add(tuple(sorted(mem.items())))
            elif any(done):
                dead[0] = True
            else:
                rec(tuple(p + 1 for p in pos), mem)
            return
        for c in movers:
            _, key, reads, writes, _ = ls[c][pos[c]]
            seen = tuple(mem[b] for b in reads)
            m2 = dict(mem)
            for b in writes:
                m2[b] = ("f", key[0], seen)
            rec(pos[:c] + (pos[c] + 1,) + pos[c + 1 :], m2)

    rec(tuple(0 for _ in ls), dict(init))
    return finals, dead[0]


def promela(ls):
    """terms are encoded as small integers through a table built on the fly by this generator: value of a write = hash id of (op id, value read)"""
    # values: we model memory cells as bytes holding an id; f(op, v) = op_code * 8 + v  (injective for <= 3 ops per core and values < 8 ... kept small by depth)
    n = len(ls)
    src = ["byte mem[2];", f"byte atb = 0; byte fin = 0; byte gen = 0;", ""]
    for c, l in enumerate(ls):
        src.append(f"active proctype core{c}() {{ byte g;")
        for e in l:
            if e[0] == "barrier":
                src.append(f"  atomic {{ g = gen; atb++; if :: (atb == {n}) -> atb = 0; gen++ :: else -> skip fi }}; (gen != g);")
            else:
                r, w = BUFS.index(e[2][0]), BUFS.index(e[3][0])
                src.append(f"  atomic {{ mem[{w}] = ({e[1][0]} + 1) * 16 + (mem[{r}] % 16) }};")
        src.append("  fin++")
        src.append("}")
    return "\n".join(src) + "\n"


def spin_outcomes(ls, tmp):
    """reachable terminal states via exhaustive SPIN search with a never-terminating monitor: we add a monitor process that asserts false when all cores finished,
    and collect one trail per distinct final memory by iterating with the final memories found so far excluded"""
    base = promela(ls)
    found = set()
    for _ in range(40):
        excl = " && ".join(f"!(mem[0] == {a} && mem[1] == {b})" for a, b in found) or "true"
        model = base + f"active proctype mon() {{ (fin == {len(ls)} && {excl}) -> assert(false) }}\n"
        open(os.path.join(tmp, "m.pml"), "w").write(model)
        subprocess.run(["spin", "-a", "m.pml"], cwd=tmp, capture_output=True, check=True)
        subprocess.run(["gcc", "-O1", "-o", "pan", "pan.c"], cwd=tmp, capture_output=True, check=True)
        out = subprocess.run(["./pan", "-E", "-m10000"], cwd=tmp, capture_output=True, text=True).stdout
        if "assertion violated" not in out:
            return found
        tr = subprocess.run(["spin", "-t", "-g", "m.pml"], cwd=tmp, capture_output=True, text=True).stdout
        vals = {int(k): int(v) for k, v in re.findall(r"mem\[(\d)\] = (\d+)", tr)}
        found.add((vals.get(0, 0), vals.get(1, 0)))
    raise RuntimeError("too many outcomes")


def encode_final(final):
    """the explorer's symbolic terms mapped to the integers of the Promela encoding"""
    def enc(t):
        if t[0] == "init":
            return 0
        return ((t[1] + 1) * 16 + (enc(t[2][0]) % 16)) % 256
    m = dict(final)
    return (enc(m["a"]), enc(m["b"]))


def main():
    nspin = int(sys.argv[sys.argv.index("--spin") + 1]) if "--spin" in sys.argv else 40
    init = {"a": ("init", "a"), "b": ("init", "b")}
    pairs = [(x, y) for x in lists(3) for y in lists(3)]
    bad = 0
    for x, y in pairs:
        ls = [mk(x, 0), mk(y, 1)]
        finals, problems, *_ = CM.explore(ls, init)
        want, dead = brute(ls, init)
        got = {f[0] for f in finals}
        if got != want or dead != any(k == "deadlock" for k, _ in problems):
            bad += 1
            print("DISAGREE (brute force):", ls, len(got), len(want), dead, problems[:1])
    print(f"brute force: {len(pairs)} pairs of event lists (<= 3 events per core), disagreements: {bad}")
    nsp = 0
    if shutil.which("spin") and nspin:
        tmp = tempfile.mkdtemp(prefix="cores_spin_")
        try:
            nb = lambda q: sum(1 for i in q if ALPHA[i][0] == "barrier")  # noqa: E731
            with_b = [(x, y) for x, y in pairs if nb(x) == nb(y) >= 1 and len(x) + len(y) >= 5]
            without = [(x, y) for x, y in pairs if nb(x) == nb(y) == 0 and len(x) + len(y) >= 5]
            sel = with_b[3 :: max(1, len(with_b) // (nspin // 2))][: nspin // 2] + without[5 :: max(1, len(without) // (nspin // 2))][: nspin // 2]
            for x, y in sel:
                ls = [mk(x, 0), mk(y, 1)]
                finals, problems, *_ = CM.explore(ls, init)
                if any(k == "deadlock" for k, _ in problems):
                    continue
                want = {encode_final(f[0]) for f in finals}
                got = spin_outcomes(ls, tmp)
                nsp += 1
                if got != want:
                    bad += 1
                    print("DISAGREE (spin):", ls, sorted(got), sorted(want))
        finally:
            shutil.rmtree(tmp, ignore_errors=True)
    print(f"spin: {nsp} deadlock-free pairs explored by pan, disagreements so far: {bad}")
    return 1 if bad else 0


if __name__ == "__main__":
    sys.exit(main())
