"""C04 — CSR lowering writes every field to its declared register.

C04a (program level, shape A): G_acc programs over real accelerators (snax_hwpe_mult: polling barrier + clear register;
snax_alu: 3 streamers, 17 fields, 2 launch registers; gemmini: RoCC pairs) -> real trace + dedup (+ overlap) -> real
convert-accfg-to-csr. The accfg-level IR is executed to produce the *expected* event segments from the declared register
map (read from the accfg.accelerator op, not from the lowering code); the lowered IR is executed on the CSR machine with
the environment choosing every barrier poll answer (busy 0..3 times, <= 2 deviations from 'done at once').
C04b (register maps, shape C): every accelerator x streamer configuration of a menu: generate_acc_op() address maps
injective, inside the 12-bit CSR range, reserved status registers not reused, field_names() == declared order.
"""
from __future__ import annotations

import itertools

from mc import common
from mc.driver import CaseResult
from mc.explore import Stats, enumerate_choices
from gen import accfg as G
from machines.accm import AccMachine
from machines.csr import CsrMachine
from machines.ir import Interp, StepBudget, UseBeforeDef, find_func, wrap

from snaxc.dialects import accfg

PID = "C04"
RULE = (
    "C04a: all G_acc programs with <= N nodes over snax_hwpe_mult / snax_alu / gemmini (several value patterns per setup so dedup leaves "
    "different partial setups; + setups mixing i32 and index values under every type mask) -> trace+dedup(+overlap) -> convert-accfg-to-csr; x all loop/branch vectors x all barrier poll answer sequences "
    "(<=2 deviations, <=3 busy polls). C04b: accelerator x streamer-configuration menu. C04c: histories of 2-3 compilations in one process over "
    "4 gemmx geometries / 4 ALU streamer configurations that declare the same accelerator name with different register maps (every ordered pair "
    "A,B and triple A,B,A); each module must be lowered against its own declaration. distinct = distinct (program, expected segments) / "
    "distinct register maps; non-trivial = program has a partial (deduplicated) setup or a loop / map has >= 2 fields"
)
ASSUMPTIONS = [
    "declared register map = properties of the accfg.accelerator op produced by generate_acc_op() (fields, launch_fields, barrier)",
    "await protocol (docs in snax.py): poll the declared barrier CSR until it reads 0; snax_hwpe_mult then clears via CSR 0x3c5 (documented); RoCC: no await",
    "order of the field writes *inside one setup* is not constrained (compared as multisets per setup); order between setups, launches, awaits, calls is",
    "RoCC: an instruction writes both halves of its pair; values are compared where observable: at every launch the hardware pair registers must equal the "
    "accfg-level register file for every written field (a half the compiler treats as unknown may transiently carry the documented default 0)",
]
BOUNDS = {
    "quick": dict(nodes=4, nesting=2, poll_deviations=2, max_busy=3),
    "thorough": dict(nodes=5, nesting=2, poll_deviations=2, max_busy=3),
}
CASE_TIMEOUT = 20
HWPE_CLEAR = 0x3C5

_ACC_CACHE = {}


def acc_table():
    """real accelerators: fields / launch from the accelerator classes' generate_acc_op()"""
    if _ACC_CACHE:
        return _ACC_CACHE
    ctx = common.ctx()
    for name, ft, lty in (("snax_hwpe_mult", "i32", "i5"), ("snax_alu", "i32", "i5"), ("gemmini", "i64", "i64")):
        acc = ctx.get_acc(name)
        op = acc.generate_acc_op()
        fields = op.field_names()
        # distinct launch values per launch register, so that a value landing in the wrong launch register is visible
        launch = tuple((n, "0" if name == "snax_hwpe_mult" else str(1 + 2 * k), lty) for k, n in enumerate(op.launch_field_names()))
        _ACC_CACHE[name] = dict(
            fields=fields,
            launch=launch,
            ft=ft,
            decl="  " + common.to_text(op) + "\n",
            addr={k: v.value.data for k, v in op.field_items()},
            laddr={k: v.value.data for k, v in op.launch_field_items()},
            barrier=op.barrier.value.data,
            rocc=name == "gemmini",
        )
    for k, v in _ACC_CACHE.items():
        G.ACCS[k] = dict(fields=v["fields"], launch=v["launch"])
    return _ACC_CACHE


def space(tier):
    b = BOUNDS[tier]
    T = acc_table()
    cases = []
    for acc in ("snax_hwpe_mult", "gemmini", "snax_alu"):
        g = G.Grammar(accs=(acc,), calls=("CALL",), ifp=False, max_depth=b["nesting"], cfor=[(0, 2, 1)])
        nodes = b["nodes"] - (1 if acc == "snax_alu" else 0)
        for p in g.programs(nodes):
            if not G.has_launch(p):
                continue
            size = sum(1 for _ in _nodes(p))
            cases.append(("prog", acc, p, "accfg-trace-states,accfg-dedup"))
            if size < b["nodes"] or tier == "thorough":
                cases.append(("prog", acc, p, "accfg-trace-states,accfg-dedup,accfg-config-overlap"))
        for p in G.skeletons(acc):
            for pl in ("accfg-trace-states,accfg-dedup", "accfg-trace-states,accfg-dedup,accfg-config-overlap", "accfg-trace-states"):
                cases.append(("prog", acc, p, pl))
    # setups that mix i32 and index values (the lowering casts index values to i32 per field): every type mask over the fields of
    # snax_hwpe_mult in a one-setup and a two-setup program, rotating masks for the 17 fields of snax_alu
    for acc in ("snax_hwpe_mult", "snax_alu"):
        nf = len(T[acc]["fields"])
        masks = list(itertools.product((0, 1), repeat=nf)) if nf <= 7 else [tuple(int((j + s) % m == 0) for j in range(nf)) for m in (2, 3, 5, 17) for s in range(m)]
        for mask in masks:
            if not any(mask):
                continue
            v1 = tuple(("nx", "ny")[j % 2] if t else ("x", "y")[j % 2] for j, t in enumerate(mask))
            v2 = tuple(("ny", "nx")[j % 2] if t else ("y", "y", "x")[j % 3] for j, t in enumerate(mask))
            cases.append(("prog", acc, (("L", acc, v1),), "accfg-trace-states"))
            cases.append(("prog", acc, (("L", acc, v1), ("L", acc, v2)), "accfg-trace-states,accfg-dedup"))
    cases += [("map", i) for i in range(len(map_space(tier)))]
    # histories of compilations in ONE process: modules that declare the same accelerator name with different register maps, lowered one
    # after the other (what snax-opt --split-input-file or a configuration sweep does); every ordered pair and every triple A,B,A
    for fam in HIST_ALPHA:
        for a in range(len(fam)):
            for c in range(len(fam)):
                if a != c:
                    cases.append(("hist", (fam[a], fam[c])))
                    cases.append(("hist", (fam[a], fam[c], fam[a])))
    return cases


_B0 = (("n",), (4,), ())
_B1 = (("n", "n"), (8,), ("a", "c", "b", "t"))
_B2 = (("n",) * 6, (8, 4), ("b",))
HIST_ALPHA = [
    [("gemmx3", 8, 8, 8), ("gemmx3", 16, 16, 16), ("gemmx3", 4, 4, 4), ("gemmx3", 5, 5, 5)],
    [("alu", (_B0, _B0, _B0)), ("alu", (_B1, _B1, _B1)), ("alu", (_B2, _B0, _B0)), ("alu", (_B0, _B0, _B2))],
]
_HIST_T = {}


def hist_entry(spec):
    """table entry (as in acc_table) for one member of a history alphabet, from the accelerator's own generate_acc_op()"""
    if spec in _HIST_T:
        return _HIST_T[spec]
    op = build_acc(spec).generate_acc_op()
    name = op.name_prop.root_reference.data
    launch = tuple((n, str(1 + 2 * k), "i5") for k, n in enumerate(op.launch_field_names()))
    _HIST_T[spec] = name, dict(
        fields=op.field_names(),
        launch=launch,
        ft="i32",
        decl="  " + common.to_text(op) + "\n",
        addr={k: v.value.data for k, v in op.field_items()},
        laddr={k: v.value.data for k, v in op.launch_field_items()},
        barrier=op.barrier.value.data,
        rocc=False,
    )
    return _HIST_T[spec]


def eval_hist(r: CaseResult, hist):
    obs = []
    for pos, spec in enumerate(hist):
        name, entry = hist_entry(spec)
        T = dict(acc_table())
        T[name] = entry
        accs = dict(G.ACCS)
        accs[name] = dict(fields=entry["fields"], launch=entry["launch"])
        nf = len(entry["fields"])

        def pat(*atoms):
            return tuple(atoms[j % len(atoms)] for j in range(nf))

        L = lambda *a: ("L", name, pat(*a))  # noqa: E731
        for prog in ((L("x", "y"), L("y", "x", "x")), (L("x", "y"), ("FOR", (L("i", "y", "x"),)), L("y"))):
            sub = CaseResult()
            eval_prog(sub, name, prog, "accfg-trace-states,accfg-dedup", T=T, accs=accs)
            r.states += sub.states
            r.transitions += sub.transitions
            r.validated += sub.validated
            r.nontrivial = r.nontrivial or sub.nontrivial
            obs.append(sub.obs)
            if sub.rejected:
                r.count("hist_member_rejected:" + str(sub.rejected))
            for v in sub.violations:
                # keyed by the history only: which member is lowered against a foreign declaration depends on what the process compiled
                # before the history; that some member is does not
                if not r.violations:
                    r.violate(f"hist|{hist!r}", dict(kind="hist", hist=hist), f"compilation #{pos} of the history {hist!r} (one process) is not lowered against its own declaration: {v[2]}")
                break
    r.obs = ("hist", hist, tuple(map(repr, obs)))
    r.sample = dict(kind="hist", history=repr(hist))


def _nodes(prog):
    for st in prog:
        yield st
        if st[0] in ("FOR", "CFOR", "WHILE", "FORI"):
            yield from _nodes(st[1])
        elif st[0] in ("IF", "IFP", "IFR"):
            yield from _nodes(st[1])
            if st[2]:
                yield from _nodes(st[2])


# --------------------------------------------------------------------------------------------- expected events


def expected_segments(mod, args, acc, T):
    """Execute the accfg-level IR; build segments from the *declared* map."""
    info = T[acc]
    segs = []
    m = AccMachine(lambda a: T[a]["fields"])

    def h_setup(it, op):
        res = m.h_setup(it, op)
        a = op.accelerator.data
        if not T[a]["rocc"]:
            ws = []
            for name, val in op.iter_params():
                v = it.get(val)
                ws.append(("w", T[a]["addr"][name], wrap(v, 32)))
            segs.append(("setup", tuple(sorted(ws))))
        else:
            # RoCC: one instruction per configured pair (funct7 from the declared map); the values are checked where they
            # are observable: at the next launch the hardware pair registers must hold what the accfg-level file holds
            insns = {name[:-4] for name, _ in op.iter_params()}
            segs.append(("rsetup", tuple(sorted(T[a]["addr"][i + ".rs1"] for i in insns))))
        return res

    def h_launch(it, op):
        res = m.h_launch(it, op)
        a = op.accelerator.data
        lv = dict((n, it.get(v)) for n, v in op.iter_params())
        if not T[a]["rocc"]:
            segs.append(("launch", tuple(sorted(("w", T[a]["laddr"][n], v) for n, v in lv.items()))))
        else:
            insns = {n[:-4] for n in lv}
            regs = m.file(a)
            snap = {}
            for fname, f7 in T[a]["addr"].items():
                if fname.endswith(".rs1"):
                    snap[f7] = (regs[fname], regs[fname[:-4] + ".rs2"])
            segs.append(("rlaunch", tuple(sorted(("insn", 3, T[a]["laddr"][i + ".rs1"], lv[i + ".rs1"], lv[i + ".rs2"]) for i in insns)), snap))
        return res

    def h_await(it, op):
        tok = it.get(op.token)
        if not T[tok[1]]["rocc"]:
            segs.append(("await", tok[1]))
        return []

    def h_call(it, op):
        res = m.h_call(it, op)
        segs.append(m.trace[-1])
        return res

    h = m.handlers()
    h.update({"accfg.setup": h_setup, "accfg.launch": h_launch, "accfg.await": h_await, "func.call": h_call, "llvm.call": h_call})
    it = Interp(handlers=h, budget=20000)
    it.run_func(find_func(mod, "f"), args)
    return segs, it.steps


def match(segs, events, T):
    """Match actual CSR events against expected segments. Returns error string or None."""
    pos = 0
    hw = {}  # RoCC: funct7 -> (rs1, rs2) as last written by an instruction
    for si, seg in enumerate(segs):
        kind = seg[0]
        if kind == "rsetup":
            n = len(seg[1])
            got = events[pos : pos + n]
            if any(e[0] != "insn" for e in got) or tuple(sorted(e[2] for e in got)) != seg[1]:
                return f"segment {si} (RoCC setup): expected exactly one instruction for each of funct7 {list(seg[1])} but the lowered code performs {list(got)}"
            for e in got:
                if e[1] != 3:
                    return f"segment {si}: instruction uses CUSTOM_{e[1]}, expected CUSTOM_3"
                hw[e[2]] = (e[3], e[4])
            pos += n
        elif kind == "rlaunch":
            for f7, (v1, v2) in seg[2].items():
                h1, h2 = hw.get(f7, (None, None))
                for want, have, half in ((v1, h1, "rs1"), (v2, h2, "rs2")):
                    if isinstance(want, int) and want != have:
                        return f"segment {si} (RoCC launch): configuration pair funct7={f7} half {half} holds {have} in the hardware but the program configured {want}"
            n = len(seg[1])
            got = tuple(sorted(events[pos : pos + n]))
            if got != seg[1]:
                return f"segment {si} (RoCC launch): expected {list(seg[1])} but the lowered code performs {list(events[pos:pos+n])}"
            pos += n
        elif kind in ("setup", "launch"):
            n = len(seg[1])
            got = tuple(sorted(events[pos : pos + n]))
            if got != seg[1]:
                return f"segment {si} ({kind}): expected accesses {list(seg[1])} but the lowered code performs {list(events[pos:pos+n])}"
            pos += n
        elif kind == "await":
            info = T[seg[1]]
            nread = 0
            while pos < len(events) and events[pos][0] == "r":
                if events[pos][1] != info["barrier"]:
                    return f"segment {si} (await {seg[1]}): polls CSR {events[pos][1]:#x}, declared barrier is {info['barrier']:#x}"
                nread += 1
                pos += 1
            if nread == 0:
                return f"segment {si} (await {seg[1]}): the declared barrier CSR {info['barrier']:#x} is never polled (next event: {events[pos] if pos < len(events) else None})"
            if events[pos - 1][2] != 0:
                return f"segment {si} (await): polling stopped while the barrier still read busy"
            if seg[1] == "snax_hwpe_mult":
                if pos < len(events) and events[pos] == ("w", HWPE_CLEAR, 0):
                    pos += 1
                else:
                    return f"segment {si} (await snax_hwpe_mult): documented clear write to 0x3c5 missing"
        else:  # call / calln
            if pos >= len(events) or events[pos] != seg:
                return f"segment {si}: expected {seg} but got {events[pos] if pos < len(events) else None}"
            pos += 1
    if pos != len(events):
        return f"extra CSR accesses after the last expected one: {events[pos:pos+4]}"
    for e in events:
        if e[0] in ("w", "r") and not (0 <= e[1] < 4096):
            return f"CSR address {e[1]} outside the 12-bit immediate range"
    return None


def leftovers(mod):
    for op in mod.walk():
        if op.name.startswith("accfg."):
            return f"accfg op {op.name} survives the lowering"
        for v in list(op.results) + [a for r in op.regions for b in r.blocks for a in b.args]:
            if isinstance(v.type, (accfg.StateType, accfg.TokenType)):
                return f"a value of type {v.type} survives the lowering (on {op.name})"
    return None


def eval_prog(r: CaseResult, acc, prog, pipeline, only=None, T=None, accs=None):
    T = T or acc_table()
    info = T[acc]
    text, nfor, nif = G.emit(prog, accs=accs or G.ACCS, field_type=info["ft"], decls=info["decl"])
    try:
        pre = common.compile_text(text, pipeline)
    except common.Rejected as e:
        r.rejected = "pre:" + e.kind
        return
    post = pre.clone()
    try:
        common.run_pipeline(post, "convert-accfg-to-csr")
    except Exception as e:
        r.rejected = "csr:" + type(e).__name__
        r.count("csr_rejected:" + type(e).__name__ + ":" + str(e)[:60])
        return
    pre_text = common.to_text(pre)
    npartial = sum(1 for op in pre.walk() if isinstance(op, accfg.SetupOp) and 0 < len(op.values) < len(info["fields"]))
    r.nontrivial = npartial > 0 or nfor > 0
    r.count("programs_with_partial_setups", int(npartial > 0))
    key0 = f"{acc}|{prog!r}|{pipeline}"
    case0 = dict(kind="prog", acc=acc, prog=prog, pipeline=pipeline)
    left = leftovers(post)
    if left:
        r.violate(key0 + "|leftover", dict(case0, vector=None), f"{left}; program {prog!r} on {acc} ({pipeline})")
    fpost = find_func(post, "f")
    obs = []
    b = BOUNDS["quick"]
    for loops, conds in G.input_vectors(nfor, nif, G.LOOP_TRIPLES_SMALL):
        if only is not None and only != [list(map(list, loops)), list(conds)]:
            continue
        args = G.args_for(loops, conds)
        try:
            segs, steps = expected_segments(pre, args, acc, T)
        except UseBeforeDef:
            # the accfg-level input itself is broken (a defect of an earlier pass, reported by C01/C06): not a lowering case
            r.count("pre_ir_use_before_def")
            continue
        r.transitions += steps
        obs.append(hash(repr(segs)))

        def run(ch):
            busy = [0]

            def poll(addr):
                if busy[0] >= b["max_busy"]:
                    busy[0] = 0
                    return 0
                c = ch.choose(2)
                if c == 1:
                    busy[0] += 1
                    return 1
                busy[0] = 0
                return 0

            cm = CsrMachine(poll)
            it = Interp(handlers=cm.handlers(), budget=40000)
            try:
                it.run_func(fpost, args)
            except UseBeforeDef as e:
                return cm.events, f"use-before-def: {e}", it.steps
            except StepBudget:
                return cm.events, "livelock: step budget exceeded (await loop never exits?)", it.steps
            return cm.events, None, it.steps

        st = Stats()
        nexec = 0
        for choices, (events, err, steps) in enumerate_choices(run, b["poll_deviations"], st):
            nexec += 1
            r.transitions += steps
            r.states += len(events)
            r.validated += 1
            if err is None:
                err = match(segs, events, T)
            if err:
                r.violate(
                    key0 + f"|{loops}|{conds}",
                    dict(case0, vector=[loops, conds], polls=choices, lowered_ir=common.to_text(post), accfg_ir=pre_text),
                    f"{err}; loops={loops} conds={conds} polls={choices}; program {prog!r} on {acc} ({pipeline})",
                )
                break
            if nexec > 300:
                r.count("poll_enumeration_cap_hit")
                break
        r.count("executions", nexec)
    r.obs = (acc, prog, pipeline, tuple(obs))
    r.sample = dict(kind="prog", acc=acc, program=repr(prog), pipeline=pipeline, accfg_ir=pre_text)


# --------------------------------------------------------------------------------------------- C04b register maps

_MAPS = {}


def map_space(tier):
    if tier in _MAPS:
        return _MAPS[tier]
    from snaxc.accelerators.streamers import streamers as S

    out = [("registered", n) for n in ("snax_hwpe_mult", "snax_alu", "snax_gemmx", "gemmini")]
    tdims = [("n",), ("n", "n"), ("r", "n", "n"), ("n", "i", "n"), ("n",) * 6]
    sdims = [(4,), (8,), (8, 4)]
    optsets = list(itertools.chain.from_iterable(itertools.combinations(["a", "c", "b", "t"], k) for k in range(5)))
    menu = [(t, s, o) for t in tdims for s in sdims for o in optsets]
    if tier == "quick":
        menu = [m for i, m in enumerate(menu) if i % 5 == 0 or len(m[2]) in (0, 4)]
    # ALU: 3 streamers: vary one at a time + all equal
    for m in menu:
        out.append(("alu", (m, m, m)))
    base = (("n",), (4,), ())
    for m in menu:
        out.append(("alu", (m, base, base)))
        out.append(("alu", (base, m, base)))
        out.append(("alu", (base, base, m)))
    for m in menu:
        for n in (4, 6, 8, 16):
            out.append(("gemmx", n, m))
    # gemmx array geometries: every n (the number of per-column shift / multiplier registers depends on n and on ceil(n / 4)) x a few m, k
    for n in range(1, 18 if tier == "quick" else 34):
        for mk in ((n, n), (8, 8), (4, 16), (1, 3)):
            out.append(("gemmx3", mk[0], n, mk[1]))
    for nsw in range(0, 8):
        out.append(("phs", nsw))
    ext_subsets = list(itertools.chain.from_iterable(itertools.combinations(range(7), k) for k in (0, 1, 2, 7)))
    for t in [("n", "n"), ("n",) * 5]:
        for s in [(8,), (8, 8)]:
            for masks in itertools.product([False, True], repeat=2):
                for ex in ext_subsets if tier == "thorough" else ext_subsets[:: 3]:
                    out.append(("xdma", t, s, masks, ex))
    _MAPS[tier] = out
    return out


def build_streamer(spec, writer=False):
    from snaxc.accelerators.streamers import streamers as S
    from snaxc.accelerators.streamers.extensions import TransposeExtension

    t, s, o = spec
    opts = []
    for c in o:
        opts.append({"a": S.HasAddressRemap, "c": S.HasChannelMask, "b": S.HasBroadcast, "t": TransposeExtension}[c]())
    return S.Streamer(S.StreamerType.Writer if writer else S.StreamerType.Reader, list(t), list(s), opts)


def build_acc(spec):
    from snaxc.accelerators.streamers import streamers as S

    kind = spec[0]
    if kind == "registered":
        return common.ctx().get_acc(spec[1])
    if kind == "alu":
        from snaxc.accelerators.snax_alu import SNAXAluAccelerator

        a, b_, c = spec[1]
        return SNAXAluAccelerator(S.StreamerConfiguration([build_streamer(a), build_streamer(b_), build_streamer(c, True)]))
    if kind == "gemmx":
        from snaxc.accelerators import snax_gemmx as GX

        n, m = spec[1], spec[2]
        base = GX.default_streamer.streamers if hasattr(GX, "default_streamer") else None
        streamers = list(base)
        streamers[0] = build_streamer(m)
        cfg = S.StreamerConfiguration(streamers)
        try:
            return GX.SNAXGEMMXAccelerator(cfg, m=n, n=n, k=n)
        except TypeError:
            return GX.SNAXGEMMXAccelerator(cfg)
    if kind == "gemmx3":
        from snaxc.accelerators import snax_gemmx as GX

        return GX.SNAXGEMMXAccelerator(S.StreamerConfiguration(list(GX.default_streamer.streamers)), m=spec[1], n=spec[2], k=spec[3])
    if kind == "phs":
        return build_phs(spec[1])
    if kind == "xdma":
        return build_xdma(*spec[1:])
    raise ValueError(kind)


def build_phs(nsw):
    from snaxc.accelerators.snax_phs import SNAXPHSAccelerator
    import inspect

    raise NotImplementedError("phs map built in C08/C20")


def build_xdma(t, s, masks, ex):
    from snaxc.accelerators.streamers import streamers as S
    from snaxc.accelerators import snax_xdma as X
    from snaxc.accelerators.streamers import extensions as E

    exts = [E.XDMA_EXT_SET[i]() for i in ex]
    chan, byte = masks
    ropts = list(exts) + ([S.HasChannelMask()] if chan else [])
    wopts = ([S.HasChannelMask()] if chan else []) + ([S.HasByteMask()] if byte else [])
    cfg = S.StreamerConfiguration(
        [S.Streamer(S.StreamerType.Reader, list(t), list(s), ropts), S.Streamer(S.StreamerType.Writer, list(t), list(s), wopts)],
        S.StreamerSystemType.DmaExt,
    )
    return X.SNAXXDMAAccelerator(cfg)


def eval_map(r: CaseResult, idx, tier_hint="quick"):
    spec = None
    for t in ("quick", "thorough"):
        if t in _MAPS and idx < len(_MAPS[t]):
            spec = _MAPS[t][idx]
            break
    if spec is None:
        spec = map_space(tier_hint)[idx]
    try:
        acc = build_acc(spec)
        op = acc.generate_acc_op()
    except NotImplementedError as e:
        r.rejected = "map:notimpl"
        return
    except Exception as e:
        r.rejected = "map:" + type(e).__name__
        r.count("map_rejected:" + type(e).__name__ + ":" + str(e)[:80])
        return
    fields = {k: v.value.data for k, v in op.field_items()}
    launch = {k: v.value.data for k, v in op.launch_field_items()}
    barrier = op.barrier.value.data
    r.obs = ("map", tuple(fields.items()), tuple(launch.items()), barrier)
    r.nontrivial = len(fields) >= 2
    r.states = len(fields) + len(launch) + 1
    r.transitions = r.states
    r.validated = 1
    r.sample = dict(kind="map", spec=repr(spec), fields=fields, launch=launch, barrier=barrier)
    key = f"map|{spec!r}"
    case = dict(kind="map", idx=idx, spec=repr(spec))
    rocc = type(acc).__name__ == "GemminiAccelerator"
    bad = []
    if hasattr(acc, "fields"):
        decl = tuple(acc.fields.keys()) if isinstance(acc.fields, dict) else tuple(acc.fields)
        if decl != op.field_names():
            bad.append(f"field_names() {op.field_names()} differ from the accelerator's declared fields {decl}")
    if hasattr(acc, "launch_fields"):
        ldecl = tuple(acc.launch_fields.keys()) if isinstance(acc.launch_fields, dict) else tuple(acc.launch_fields)
        if ldecl != op.launch_field_names():
            bad.append(f"launch_field_names() {op.launch_field_names()} differ from the declared launch fields {ldecl}")
    if not rocc:
        alln = list(fields.items()) + list(launch.items()) + [("<barrier>", barrier)]
        seen = {}
        for n, a in alln:
            if a in seen:
                bad.append(f"register {a:#x} is shared by {seen[a]} and {n}")
            seen[a] = n
            if not (0 <= a < 4096):
                bad.append(f"address of {n} = {a:#x} is outside the 12-bit CSR range")
        # reserved status registers: the two CSRs after the streamer launch field
        if "launch_streamer" in launch:
            ls = launch["launch_streamer"]
            for k in (1, 2):
                if ls + k in seen:
                    bad.append(f"reserved streamer status register {ls + k:#x} is reused by {seen[ls + k]}")
    else:
        # RoCC: the two halves of a pair share one funct7, different pairs differ
        pairs = {}
        for n, a in list(fields.items()) + list(launch.items()):
            pairs.setdefault(n[:-4], set()).add(a)
        if any(len(v) != 1 for v in pairs.values()):
            bad.append(f"halves of a RoCC pair have different funct7: {pairs}")
        f7 = [next(iter(v)) for v in pairs.values()]
        if len(set(f7)) != len(f7):
            bad.append(f"two RoCC instructions share a funct7: {pairs}")
    for b_ in bad:
        r.violate(key + "|" + b_[:30], case, f"{spec!r}: {b_}")


def evaluate(case) -> CaseResult:
    r = CaseResult()
    if case[0] == "prog":
        eval_prog(r, case[1], case[2], case[3])
        r.count("cases_prog")
    elif case[0] == "hist":
        eval_hist(r, case[1])
        r.count("cases_hist")
    else:
        eval_map(r, case[1])
        r.count("cases_map")
    return r


def _tup(x):
    return tuple(_tup(y) for y in x) if isinstance(x, (list, tuple)) else x


def replay(case):
    r = CaseResult()
    if case["kind"] == "prog":
        v = case.get("vector")
        eval_prog(r, case["acc"], G.from_json(case["prog"]), case["pipeline"], only=[[list(t) for t in v[0]], list(v[1])] if v else None)
    elif case["kind"] == "hist":
        eval_hist(r, _tup(case["hist"]))
    else:
        eval_map(r, case["idx"])
    return r.violations
