"""C07 — assumed accelerator state is always a subset of the real state.

Shape A with a state invariant: every G_acc program (incl. annotated / llvm calls at any depth, scf.while wrappers,
pre-threaded variants) x every run-time input vector. Real code: accfg-trace-states; while the traced IR executes on the
register machine the harness calls the real infer_state_of(v) for every !accfg.state value v at the moment the machine
defines it (setup result, loop block argument at the start of *each* iteration, loop result, if result) and checks
  (I1) every inferred (field -> ssa) holds: regs[acc][field] == env[ssa]
  (I2) threading: when a setup with in_state = s executes, the register file / havoc epoch of its accelerator are exactly
       those at the moment s was (last) defined, i.e. s really is the preceding state on this path.
"""
from __future__ import annotations

from mc import common
from mc.driver import CaseResult
from gen import accfg as G
from checks.accfg_common import execute
from machines.ir import UseBeforeDef

from snaxc.dialects import accfg
from snaxc.inference.trace_acc_state import infer_state_of

PID = "C07"
RULE = (
    "all G_acc programs (opaque func.call / llvm.call / annotated no-effect calls at every depth, scf.for, scf.if with and without else, "
    "induction-parity ifs, scf.while wrappers, one or two accelerators) with <= N nodes, plus pre-threaded variants (trace applied twice / "
    "after dedup), x all loop-bound and branch vectors; invariants I1/I2 evaluated at every definition of a state-typed value. "
    "distinct = distinct (program, per-vector traces); non-trivial = traced IR has a state-typed block argument or if-result or a call"
)
ASSUMPTIONS = [
    "register machine semantics of machines/accm.py; an unannotated external call may reconfigure everything, an annotated one nothing",
    "SSA values are compared by run-time value (x=1000, y=2000, induction values small) - distinct atoms have distinct values",
]
BOUNDS = {
    "quick": dict(nodes=4, nodes_two_acc=3, nesting=2),
    "thorough": dict(nodes=5, nodes_two_acc=4, nesting=3),
}
CASE_TIMEOUT = 6


def space(tier):
    b = BOUNDS[tier]
    g1 = G.Grammar(accs=("acc1",), calls=("CALL", "CALLN"), ifp=True, whiles=True, max_depth=b["nesting"], cfor=[(0, 2, 1), (3, 3, 1)])
    p1 = [p for p in g1.programs(b["nodes"]) if G.has_launch(p)]
    seen = set(p1)
    g2 = G.Grammar(accs=("acc1", "acc2"), calls=("CALL", "LLVMCALL"), whiles=True, max_depth=b["nesting"])
    p2 = [p for p in g2.programs(b["nodes_two_acc"]) if G.has_launch(p) and p not in seen]
    progs = p1 + p2 + G.skeletons("acc1")
    out = [(p, v) for p in progs for v in ("trace", "trace+dedup+trace")]
    if tier == "quick":
        # one node deeper with few leaves at nesting depth 1
        seen |= set(p2)
        out += [(p, "trace+dedup+trace") for p in G.slim_programs(b["nodes"] + 1) if p not in seen]
        out += [(p, "trace") for p in G.slim_two_acc_programs(b["nodes"] + 1) if p not in seen]
    return out


class Inv:
    def __init__(self, mach, it, bad):
        self.m, self.it, self.bad = mach, it, bad
        self.snap = {}  # state SSA value -> (snapshot, epoch, writes)
        self.checked = 0

    def define(self, v, where):
        acc = v.type.accelerator.data
        self.snap[v] = (self.m.snapshot(acc), self.m.epoch.get(acc), self.m.writes.get(acc))
        try:
            st = infer_state_of(v)
        except Exception as e:
            self.bad.append(("infer-crash", f"infer_state_of raised {type(e).__name__}: {e} at {where}"))
            return
        regs = self.m.file(acc)
        self.checked += 1
        for field, ssa in st.items():
            try:
                want = self.it.get(ssa)
            except UseBeforeDef:
                self.bad.append(("I1-unavailable", f"{where}: inferred {field} = a value that is not available here"))
                continue
            if regs.get(field) != want:
                self.bad.append(("I1", f"{where}: compiler assumes {acc}.{field} = {want} but the register holds {regs.get(field)}"))

    def use_in_state(self, op):
        s = op.in_state
        if s is None:
            return
        acc = op.accelerator.data
        if s not in self.snap:
            self.bad.append(("I2-undefined", f"setup uses an in_state that was never defined on this path"))
            return
        snap, ep, wr = self.snap[s]
        now = (self.m.snapshot(acc), self.m.epoch.get(acc), self.m.writes.get(acc))
        if now != (snap, ep, wr):
            self.bad.append(("I2", f"setup of {acc} is threaded to a state that is not the one preceding it on this path (registers/havocs changed in between: {dict(snap)} -> {dict(now[0])})"))


def run_with_invariants(mod, args, accs=G.ACCS):
    bad = []
    holder = {}

    def hooks(m):
        return {}

    from machines.accm import AccMachine
    from machines.ir import Interp, StepBudget, find_func
    from checks.accfg_common import fields_of_factory

    m = AccMachine(fields_of_factory(accs))
    it = Interp(handlers=m.handlers(), budget=20000)
    inv = Inv(m, it, bad)
    m.on_setup_pre = lambda mach, itp, op: inv.use_in_state(op)
    m.on_setup = None

    def post(itp, op):
        for res in op.results:
            if isinstance(res.type, accfg.StateType):
                inv.define(res, f"result of {op.name}")

    def blk(itp, block):
        for a in block.args:
            if isinstance(a.type, accfg.StateType):
                inv.define(a, f"block argument #{a.index} of {block.parent_op().name}")

    it.post_hook = post
    it.block_hook = blk
    f = find_func(mod, "f")
    try:
        it.run_func(f, args)
    except UseBeforeDef as e:
        bad.append(("use-before-def", str(e)[:160]))
    except StepBudget:
        bad.append(("step-budget", "budget"))
    return bad, m, it, inv


def evaluate(case, only_vector=None) -> CaseResult:
    prog, variant = case
    r = CaseResult()
    text, nfor, nif = G.emit(prog)
    pipeline = {"trace": "accfg-trace-states", "trace+dedup+trace": "accfg-trace-states,accfg-dedup,accfg-trace-states"}[variant]
    try:
        mod = common.compile_text(text, pipeline)
    except common.Rejected as e:
        r.rejected = "trace:" + e.kind
        return r
    out_text = common.to_text(mod)
    nstate_args = out_text.count("iter_args(") + out_text.count("-> (!accfg.state") + out_text.count("call")
    r.nontrivial = nstate_args > 0
    obs = []
    nvec = 0
    for loops, conds in G.input_vectors(nfor, nif):
        if only_vector is not None and [list(map(list, loops)), list(conds)] != only_vector:
            continue
        nvec += 1
        if nvec > 400:
            r.count("vector_cap_hit")
            break
        bad, m, it, inv = run_with_invariants(mod, G.args_for(loops, conds))
        r.transitions += it.steps
        r.states += inv.checked
        r.validated += 1
        obs.append(hash(tuple(map(repr, m.trace))))
        seen_kinds = set()
        for kind, msg in bad:
            if kind in seen_kinds:
                continue
            seen_kinds.add(kind)
            r.violate(
                f"{prog!r}|{variant}|{loops}|{conds}|{kind}",
                dict(prog=prog, variant=variant, vector=[loops, conds], traced_ir=out_text),
                f"{kind}: {msg}; loops={loops} conds={conds}; program {prog!r} ({variant})",
            )
    r.obs = (prog, variant, tuple(obs))
    r.sample = dict(program=repr(prog), variant=variant, traced_ir=out_text, vectors=nvec)
    return r


def replay(case):
    r = evaluate((G.from_json(case["prog"]), case["variant"]), only_vector=[[list(t) for t in case["vector"][0]], list(case["vector"][1])])
    return r.violations
