"""C09 — chosen memory layouts are one-to-one on the operand.

Shape A: every dart.schedule of a finite family (matmul tile loops in every order with every (outer, inner) bound pair per dim, several element width
vectors, conv-like d0+d1 accesses, broadcast / reduction dims, elementwise 1-D / 2-D incl. transposed access; gemmx and ALU templates) -> real
set-memory-layout{tiled=true|false}. For the result type of every inserted snax.layout_cast the address function (independent evaluator) must be injective
over the whole index box of the operand's shape and the product of tile bounds per dimension must equal the shape; an op with an operand that already
carries a tiled-strided layout must be left untouched.
"""
from __future__ import annotations

import itertools

import numpy as np

from mc import common
from mc.driver import CaseResult
from machines import layout as ref

from snaxc.ir.dart.affine_transform import AffineTransform

PID = "C09"
RULE = (
    "matmul: dims (m,n,k) each with (outer, inner) from {(1,4),(1,8),(2,8),(3,8),(2,4)} (operand shape = outer*inner), all 6 orders of the outer loops, element width "
    "vectors (8,8,32),(16,16,32),(8,8,8),(32,32,32),(64,64,64); conv-like (k + 4*o_outer + o_inner) with k in 1..3; elementwise 1-D and 2-D (row and "
    "transposed access) on the ALU template; operands with a pre-existing TSL; operands with one or two dimensions (sizes 1..3, every position) the schedule never indexes; x tiled in {true,false}; "
    "tiles of an uninitialised global: tile shapes {2x3,4x6,8x12,1x4,4x1} x 5-7 tile layouts (dense, padded rows, column-major, two-level with gaps) x global = 1..3 x 1..3 tiles x every tile position x i8/i32 -> "
    "realize-memref-casts; the layout chosen for the whole global must be injective, cover the global and agree with the tile layout inside every tile. distinct = distinct (schedule, chosen layouts); "
    "non-trivial = some chosen layout is not plain row-major"
)
ASSUMPTIONS = ["layout semantics: machines/layout.py (addr = sum step*digit)", "the operand shape is exactly covered by the schedule's accesses except for the conv-like family (halo)"]
BOUNDS = {"quick": dict(), "thorough": dict(note="more (outer, inner) pairs incl. (5,8),(1,16),(4,2),(3,3); conv k up to 7; elementwise up to 17 tiles / 9x6")}
CASE_TIMEOUT = 60
EL = {8: "i8", 16: "i16", 32: "i32", 64: "i64"}


def amap(A):
    A = np.array(A, dtype=np.int_)
    return str(AffineTransform(A, np.zeros(A.shape[0], dtype=np.int_)).to_affine_map())


def schedule_text(acc, shapes, widths, mats, bounds, nin, pre_tsl=None):
    """mats: per operand access matrix (rows = operand dims, cols = schedule dims)"""
    types = []
    for i, (sh, w) in enumerate(zip(shapes, widths)):
        lay = f", {pre_tsl[i]}" if pre_tsl and pre_tsl[i] else ""
        types.append("memref<" + "x".join(map(str, sh)) + "x" + EL[w] + lay + ', "L1">')
    args = ", ".join(f"%m{i} : {t}" for i, t in enumerate(types))
    pats = ", ".join(f"affine_map<{amap(m)}>" for m in mats)
    bnds = ", ".join(f"{b} : index" for b in bounds)
    nout = len(shapes) - nin
    streams = ", ".join(f"%s{i} : !dart.stream<{EL[w]}>" for i, w in enumerate(widths))
    ops = ", ".join(f"%m{i}" for i in range(len(shapes)))
    # body: a dart.generic consuming the input streams; content is irrelevant for the pass
    gin = ", ".join(f"%s{i}" for i in range(nin))
    gint = ", ".join(f"!dart.stream<{EL[widths[i]]}>" for i in range(nin))
    bargs = ", ".join([f"%e{i} : {EL[widths[i]]}" for i in range(nin)] + [f"%eo : {EL[widths[-1]]}"])
    body = (
        f'    %g = "dart.generic"({gin}) <{{library_call = "{acc}"}}> ({{\n    ^bb1({bargs}):\n      dart.yield %eo : {EL[widths[-1]]}\n    }}) : ({gint}) -> !dart.stream<{EL[widths[-1]]}>\n'
        f"    dart.yield %g : !dart.stream<{EL[widths[-1]]}>\n"
    )
    text = (
        "builtin.module {\nfunc.func @f(" + args + ") {\n"
        f'  "dart.schedule"({ops}) <{{patterns = [{pats}], accelerator = "{acc}", tiles = [[]], bounds = [{bnds}], operandSegmentSizes = array<i32: {nin}, {nout}>}}> ({{\n'
        f"  ^bb0({streams}):\n{body}  }}) : ({', '.join(types)}) -> ()\n  func.return\n}}\n}}\n"
    )
    return text


PAIRS = [(1, 4), (1, 8), (2, 8), (3, 8), (2, 4)]
WIDTHS = [(8, 8, 32), (16, 16, 32), (8, 8, 8), (32, 32, 32), (64, 64, 64)]


def space(tier):
    cases = []
    pairs = PAIRS + ([(5, 8), (1, 16), (4, 2), (3, 3)] if tier == "thorough" else [])
    for pm, pn, pk in itertools.product(pairs, repeat=3):
        for order in itertools.permutations(range(3)):
            for w in WIDTHS if (pm, pn, pk).count((2, 8)) >= 1 or tier == "thorough" else WIDTHS[:2]:
                for tiled in (True, False):
                    cases.append(("mm", (pm, pn, pk), order, w, tiled))
    # an inner (innermost-indexing) iterator of bound 1 on a dimension of size > 1 (pointwise / 1x1 kernels): the innermost tile has bound 1
    for sub in range(1, 8):
        for unit in ((2, 1), (3, 1)):
            ps = tuple(unit if sub >> d & 1 else (2, 8) for d in range(3))
            for order in itertools.permutations(range(3)):
                for w in WIDTHS[:2] if tier == "quick" else WIDTHS:
                    for tiled in (True, False):
                        cases.append(("mm", ps, order, w, tiled))
    # sparse coverage: the inner iterator's bound is smaller than the outer iterator's multiplier (rows 0,1, 8,9, 16,17, ... of a dimension)
    for sp in ((4, 2, 8), (2, 2, 4), (2, 3, 8), (3, 4, 8)):
        for sub in range(1, 8):
            ps = tuple(sp if sub >> d & 1 else (2, 8) for d in range(3))
            for order in itertools.permutations(range(3)):
                for w in WIDTHS[:2] if tier == "quick" else WIDTHS:
                    for tiled in (True, False):
                        cases.append(("mm", ps, order, w, tiled))
    for k in (1, 2, 3) if tier == "quick" else (1, 2, 3, 4, 5, 7):
        for oo in (1, 2, 4) if tier == "quick" else (1, 2, 3, 4, 5):
            for w in (8, 32, 64) if tier == "quick" else (8, 16, 32, 64):
                for tiled in (True, False):
                    cases.append(("conv", k, oo, w, tiled))
    # strided / dilated convolution-like accesses: stride * (4*o_outer + o_inner) + dilation * k
    for k in (2, 3):
        for oo in (1, 2):
            for stride, dil in ((2, 1), (1, 2), (2, 3), (3, 2)):
                for w in (8, 64):
                    for tiled in (True, False):
                        cases.append(("convs", k, oo, stride, dil, w, tiled))
    for n_outer in (1, 2, 3, 5) if tier == "quick" else range(1, 18):
        for w in (8, 16, 32, 64):
            for tiled in (True, False):
                cases.append(("ew1", n_outer, w, tiled))
    for r in (1, 2, 3, 4) if tier == "quick" else range(1, 10):
        for co in (1, 2, 3) if tier == "quick" else range(1, 7):
            for trans in (0, 1, 2):
                for w in (8, 32, 64):
                    for tiled in (True, False):
                        cases.append(("ew2", r, co, trans, w, tiled))
    for tiled in (True, False):
        for which in (0, 1, 2):
            cases.append(("pre", which, tiled))
    # an operand dimension of size > 1 that the schedule never indexes (always element 0 of it)
    for lead in (2, 3):
        for co in (1, 2):
            for w in (8, 64):
                for tiled in (True, False):
                    cases.append(("unacc", lead, co, w, tiled))
    # several unindexed dimensions, at every position around the indexed one, on an input or on the output
    for sizes in itertools.product((1, 2, 3), repeat=2):
        for pos in (0, 1, 2):
            for which in (0, 2):
                for w in (8, 64):
                    for tiled in (True, False):
                        cases.append(("unacc2", sizes, pos, which, w, tiled))
    # the operand is a tile (subview) of an uninitialised global: realize-memref-casts extends the tile's (possibly padded) layout to the whole global
    for ti, (R, C) in enumerate(GLOB_TILES if tier == "quick" else GLOB_TILES + [(3, 5), (6, 4)]):
        for li in range(len(glob_layouts(R, C))):
            for mult in itertools.product((1, 2, 3), repeat=2):
                for w in (8, 32):
                    cases.append(("glob", (R, C), li, mult, w))
    return cases


GLOB_TILES = [(2, 3), (4, 6), (8, 12), (1, 4), (4, 1)]


def glob_layouts(R, C):
    """tile layouts as set-memory-layout produces them: dense, padded rows (access granularity), column-major, two-level tiles with gaps"""
    P8 = -(-C // 8) * 8
    out = [
        [[(R, C)], [(C, 1)]],
        [[(R, C + 1)], [(C, 1)]],
        [[(R, P8 if P8 != C else C + 8)], [(C, 1)]],
        [[(R, 1)], [(C, R)]],
        [[(R, 1)], [(C, R + 2)]],
    ]
    if R % 2 == 0 and R > 2:
        out.append([[(R // 2, 2 * P8 + 3), (2, P8)], [(C, 1)]])
    if C % 2 == 0 and C > 2:
        out.append([[(R, C // 2 * 2 + 1)], [(C // 2, 2 * R * (C + 1)), (2, 1)]])
    return out


def _tsl(dims):
    return "#tsl.tsl<" + ", ".join("[" + ", ".join(str(b) for b, _ in d) + "] -> (" + ", ".join(str(s_) for _, s_ in d) + ")" for d in dims) + ">"


def eval_glob(case) -> CaseResult:
    _, (R, C), li, (ma, mb), w = case
    r = CaseResult()
    dims = glob_layouts(R, C)[li]
    el = EL[w]
    GR, GC = R * ma, C * mb
    key = f"{case!r}"
    gt = f"memref<{GR}x{GC}x{el}>"
    lay = _tsl(dims)
    lines = []
    tiles = [(a, b) for a in range(ma) for b in range(mb)]
    # one get_global + one subview (the pattern requires a single use): the tile position is part of the case enumeration below
    r.obs = (case,)
    r.sample = dict(case=repr(case), tile_layout=lay, global_shape=[GR, GC])
    got_layouts = []
    for (ta, tb) in tiles:
        off = ta * R * GC + tb * C
        st = f"memref<{R}x{C}x{el}, strided<[{GC}, 1], offset: {off}>>"
        text = (
            f'builtin.module {{\n  "memref.global"() <{{alignment = 64 : i64, initial_value, sym_name = "g", sym_visibility = "private", type = {gt}}}> : () -> ()\n'
            f"func.func @f() {{\n  %g = memref.get_global @g : {gt}\n  %a = memref.subview %g[{ta * R}, {tb * C}] [{R}, {C}] [1, 1] : {gt} to {st}\n"
            f'  %l = "snax.layout_cast"(%a) : ({st}) -> memref<{R}x{C}x{el}, {lay}>\n  "test.op"(%l) : (memref<{R}x{C}x{el}, {lay}>) -> ()\n  func.return\n}}\n}}\n'
        )
        case_j = dict(case=case, program=text)
        try:
            mod = common.compile_text(text, "realize-memref-casts")
        except common.Rejected as e:
            r.rejected = e.kind
            r.count("glob_rejected:" + str(e)[:60])
            return r
        gg = [op for op in mod.walk() if op.name == "memref.get_global"]
        sv = [op for op in mod.walk() if op.name == "memref.subview"]
        if len(gg) != 1 or len(sv) != 1 or not hasattr(gg[0].results[0].type.layout, "data"):
            r.count("glob_not_extended")
            continue
        r.validated += 1
        gty = gg[0].results[0].type
        G = [[(s_.bound, s_.step) for s_ in ts.strides] for ts in gty.layout.data.tstrides]
        goff = gty.layout.data.offset or 0
        got_layouts.append(str(gty.layout.data))
        r.transitions += 1
        if any(b is None or s_ is None for d in G for (b, s_) in d):
            r.violate(key + "|dynamic", case_j, f"layout {gty.layout.data} chosen for the static global {gt} has dynamic entries")
            return r
        if ref.shape(G) != [GR, GC]:
            r.violate(key + "|cover", case_j, f"layout {gty.layout.data} chosen for the global covers {ref.shape(G)}, the global is {GR}x{GC}; tile layout {lay}")
            return r
        seen = {}
        for idx in ref.box([GR, GC]):
            a = ref.addr(G, idx) + goff
            if a in seen:
                r.violate(key + "|alias", case_j, f"layout {gty.layout.data} chosen for the global {gt} maps elements {seen[a]} and {idx} to the same address {a}; tile layout {lay}")
                return r
            seen[a] = idx
        r.states += len(seen)
        # the tile view promises the requested tile layout from its own base pointer: element idx of the tile must sit at base + tile(idx)
        vty = sv[0].results[0].type
        if not hasattr(vty.layout, "data") or [[(s_.bound, s_.step) for s_ in ts.strides] for ts in vty.layout.data.tstrides] != dims:
            r.violate(key + "|view", case_j, f"the tile view has type {vty}, the consumer was promised layout {lay}")
            return r
        base = ref.addr(G, [ta * R, tb * C])
        for idx in ref.box([R, C]):
            if ref.addr(G, [ta * R + idx[0], tb * C + idx[1]]) - base != ref.addr(dims, idx):
                r.violate(key + "|tile", case_j, f"tile ({ta}, {tb}) element {idx}: the global's layout {gty.layout.data} puts it at base+{ref.addr(G, [ta * R + idx[0], tb * C + idx[1]]) - base}, the tile layout {lay} at base+{ref.addr(dims, idx)}")
                return r
    r.obs = (case, tuple(got_layouts))
    r.nontrivial = bool(got_layouts) and li > 0
    return r


def build(case):
    kind = case[0]
    if kind == "mm":
        _, (pm, pn, pk), order, w, tiled = case
        outer = [pm[0], pn[0], pk[0]]
        inner = [pm[1], pn[1], pk[1]]
        # a third component is the multiplier of the outer iterator when it differs from the inner bound (a schedule that does not cover the
        # dimension densely: index = mult * outer + inner with inner bound < mult); the dimension then has outer * mult elements
        mult = [p[2] if len(p) > 2 else p[1] for p in (pm, pn, pk)]
        M, N, K = pm[0] * mult[0], pn[0] * mult[1], pk[0] * mult[2]
        # schedule dims: outer loops in `order`, then inner (m, n, k)
        cols = 6
        pos_outer = {d: i for i, d in enumerate(order)}  # dim d (0=m,1=n,2=k) sits at column pos_outer[d]

        def row(d):
            r = [0] * cols
            r[pos_outer[d]] = mult[d]
            r[3 + d] = 1
            return r

        A = [row(0), row(2)]
        B = [row(2), row(1)]
        C = [row(0), row(1)]
        bounds = [outer[d] for d in order] + inner
        return "snax_gemmx", [(M, K), (K, N), (M, N)], list(w), [A, B, C], bounds, 2, tiled, None
    if kind == "conv":
        _, k, oo, w, tiled = case
        O = oo * 4
        # dims: (k, o_outer, o_inner)
        X = [[1, 4, 1]]
        W = [[1, 0, 0]]
        Y = [[0, 4, 1]]
        return "snax_alu", [(O + k - 1,), (k,), (O,)], [w, w, w], [X, W, Y], [k, oo, 4], 2, tiled, None
    if kind == "convs":
        _, k, oo, stride, dil, w, tiled = case
        O = oo * 4
        X = [[dil, 4 * stride, stride]]
        W = [[1, 0, 0]]
        Y = [[0, 4, 1]]
        return "snax_alu", [(stride * (O - 1) + dil * (k - 1) + 1,), (k,), (O,)], [w, w, w], [X, W, Y], [k, oo, 4], 2, tiled, None
    if kind == "ew1":
        _, no, w, tiled = case
        m = [[4, 1]]
        return "snax_alu", [(no * 4,)] * 3, [w] * 3, [m, m, m], [no, 4], 2, tiled, None
    if kind == "ew2":
        _, r, co, trans, w, tiled = case
        C_ = co * 4
        rowm = [[1, 0, 0], [0, 4, 1]]
        tr = [[0, 4, 1], [1, 0, 0]]
        mats = [rowm, rowm, rowm]
        shapes = [(r, C_)] * 3
        if trans >= 1:
            mats[0] = tr
            shapes[0] = (C_, r)
        if trans == 2:
            mats[2] = tr
            shapes[2] = (C_, r)
        return "snax_alu", shapes, [w] * 3, mats, [r, co, 4], 2, tiled, None
    if kind == "unacc":
        _, lead, co, w, tiled = case
        C_ = co * 4
        plain = [[4, 1]]
        led = [[0, 0], [4, 1]]
        return "snax_alu", [(lead, C_), (C_,), (C_,)], [w] * 3, [led, plain, plain], [co, 4], 2, tiled, None
    if kind == "unacc2":
        _, sizes, pos, which, w, tiled = case
        plain = [[4, 1]]
        shape, mat = list(sizes), [[0, 0], [0, 0]]
        shape.insert(pos, 8)
        mat.insert(pos, [4, 1])
        shapes, mats = [(8,), (8,), (8,)], [plain, plain, plain]
        shapes[which], mats[which] = tuple(shape), mat
        return "snax_alu", shapes, [w] * 3, mats, [2, 4], 2, tiled, None
    if kind == "pre":
        _, which, tiled = case
        acc, shapes, w, mats, bounds, nin, _, _ = build(("mm", ((2, 8), (2, 8), (2, 8)), (0, 1, 2), (8, 8, 32), tiled))
        pre = [None, None, None]
        pre[which] = "#tsl.tsl<[2, 8] -> (128, 8), [2, 8] -> (64, 1)>"
        return acc, shapes, w, mats, bounds, nin, tiled, pre
    raise ValueError(kind)


def evaluate(case) -> CaseResult:
    if case[0] == "glob":
        return eval_glob(case)
    r = CaseResult()
    acc, shapes, widths, mats, bounds, nin, tiled, pre = build(case)
    decl_acc = common.ctx().get_acc(acc)
    text = schedule_text(acc, shapes, widths, mats, bounds, nin, pre)
    key = f"{case!r}"
    case_j = dict(case=case, program=text)
    try:
        base = common.parse(text)
        base.verify()
    except Exception as e:
        raise RuntimeError(f"generator bug: {e}\n{text}")
    out = base.clone()
    try:
        common.run_pipeline(out, f"set-memory-layout{{tiled={'true' if tiled else 'false'}}}")
    except Exception as e:
        r.rejected = "pass:" + type(e).__name__
        r.count("exc:" + type(e).__name__ + ":" + str(e)[:60])
        return r
    casts = [op for op in out.walk() if op.name == "snax.layout_cast"]
    if pre is not None:
        r.obs = (case, "pre", len(casts))
        r.states = 1
        r.validated = 1
        r.sample = dict(case=repr(case), casts=len(casts))
        if casts or common.to_text(out) != common.to_text(base):
            r.violate(key + "|touched", case_j, f"an operation with an operand that already carries an explicit layout was modified ({len(casts)} casts inserted)")
        return r
    layouts = []
    for c in casts:
        ty = c.results[0].type
        L = ty.layout.data
        dims = [[(s.bound, s.step) for s in ts.strides] for ts in L.tstrides]
        shp = list(ty.get_shape())
        layouts.append(str(L))
        r.transitions += 1
        if any(b is None or s is None for d in dims for (b, s) in d):
            r.violate(key + "|dynamic", case_j, f"chosen layout {L} for a static operand {ty} has dynamic entries")
            continue
        if ref.shape(dims) != shp:
            r.violate(key + "|cover", case_j, f"chosen layout {L} covers {ref.shape(dims)} but the operand shape is {shp}; schedule bounds {bounds}")
            continue
        seen = {}
        dup = None
        for idx in ref.box(shp):
            a = ref.addr(dims, idx)
            if a in seen:
                dup = (seen[a], idx, a)
                break
            seen[a] = idx
        r.states += len(seen)
        if dup:
            r.violate(key + "|alias", case_j, f"chosen layout {L} of {ty} maps elements {dup[0]} and {dup[1]} to the same address {dup[2]}; schedule bounds {bounds}, tiled={tiled}")
    r.validated = 1
    r.obs = (case, tuple(layouts))
    r.nontrivial = any("," in l and l.count("->") >= 1 for l in layouts)
    r.count("layout_casts", len(casts))
    r.sample = dict(case=repr(case), layouts=layouts)
    if len(casts) != len(shapes):
        r.count("ops_without_full_cast_set")
    return r


def _t(x):
    return tuple(_t(i) for i in x) if isinstance(x, list) else x


def replay(case):
    return evaluate(_t(case["case"])).violations
