"""C12 — materialised casts deliver the right data to every consumer.

prog  (shape A) every public function over {two memref arguments, one local allocation} with <= 3 tagged accelerator ops (linalg.generic, each choosing
      its input and output among the buffers; output-only or accumulating body), optionally inside an scf.for, optionally with a hand-placed
      snax.layout_cast in front of an operand -> real set-memory-space + realize-memref-casts. Both programs are executed on a buffer machine with symbolic
      contents (reference run: casts are aliases). Every tagged op instance must observe the same input contents, the function-visible buffers must end
      with the same contents, every accelerator operand must live in L1, and the function signature keeps its external memory space.
const (shape C) transform_constant for every dense static tiled-strided layout of small shapes x iota constants (i8/i32): new[addr(idx)] == old[rowmajor(idx)];
      the same through the arith.constant / memref.global / subview-of-global rewrite patterns; transpose_tuple for all r,c <= 5.
"""
from __future__ import annotations

import itertools
import struct

import numpy as np

from mc import common
from mc.driver import CaseResult
from gen import struct as ST
from machines import layout as ref
from machines.ir import Interp, InterpError, StepBudget, UseBeforeDef, find_func
from machines.memview import View, handlers as mem_handlers

PID = "C12"
RULE = (
    "prog: all sequences of <= 3 ops (in x out over buffers {a,b: arguments, c: local allocation}, incl. in-place in = out; body output-only or accumulating), each op at top "
    "level or inside one scf.for (trips 0,1,2), optional layout cast on one operand; const: all dense layouts of shapes (4,),(6,),(2,3),(4,4),(4,6),(2,2,2) with "
    "every 2-level factorisation and every stride order x {i8,i32}; transposes r,c <= 5. distinct = distinct (program/layout, observation); non-trivial = a "
    "cast had to be materialised / the layout permutes the data"
)
ASSUMPTIONS = [
    "buffer machine: a buffer holds one symbolic content term; copy transfers the term; an accelerator op reads its inputs (and its output buffer iff its body uses the output argument) and writes f(inputs) to its output",
    "reference semantics of a cast (memory space / layout) = an alias of its source",
    "dense layout semantics: machines/layout.py",
]
BOUNDS = {"quick": dict(ops=3), "thorough": dict(ops=4)}
CASE_TIMEOUT = 60
MT = "memref<8xi32>"
BUFS = ["a", "b", "c"]


# ------------------------------------------------------------------------------------------------ programs


def gen_text(t, ins, out, acc, lay_in=False):
    """linalg.generic over memref<8xi32> operands; acc: body reads the output argument"""
    body = f"%r{t} = arith.addi %x{t}, %y{t} : i32" if acc else f"%r{t} = arith.addi %x{t}, %x{t} : i32"
    return [
        f'linalg.generic {{indexing_maps = [affine_map<(d0) -> (d0)>, affine_map<(d0) -> (d0)>], iterator_types = ["parallel"]}} ins({ins} : {MT}) outs({out} : {MT}) attrs = {{verif.id = {t} : i32}} {{',
        f"^bb0(%x{t} : i32, %y{t} : i32):",
        f"  {body}",
        f"  linalg.yield %r{t} : i32",
        "}",
    ]


def leaf_emit(leaf, tag, ivs):
    _, i, o, acc = leaf
    return gen_text(tag, "%" + i, "%" + o, acc)


def prog_space(tier):
    # accumulating bodies (the body reads the output argument) only on the local L1 buffer c: for outputs that stand in for a cast the
    # compiler treats accelerator outputs as write-only (documented in RealizeMemrefCasts: accelerators overwrite their output), see DESIGN.md
    leaves = [("G", i, o, acc) for i in BUFS for o in BUFS if i != o for acc in (0, 1) if not (acc and o != "c")]
    # in-place operations: the same buffer is an input operand and the output operand (x = x + x, read through the input)
    leaves += [("G", x, x, 0) for x in BUFS]
    g = ST.Grammar(leaves, controls=("FOR",), max_depth=1)
    progs = []
    for p in g.programs(BOUNDS[tier]["ops"] + 1):
        nops = ST.count(p, lambda s: s[0] == "G")
        if nops < 1 or nops > BOUNDS[tier]["ops"]:
            continue
        progs.append(p)
    return progs


VARIANTS = ["sub", "glob", "ret", "sub+glob+ret", "clear", "sub+glob+ret+clear", "priv", "sub+glob+priv", "dyn", "dyn+ret"]


def build_prog(prog, variant):
    """variant (provenance of the buffers): None: a, b arguments, c a local allocation. sub: a is a subview of a larger argument. glob: b is a global.
    ret: the local allocation c is returned from the function."""
    v = set((variant or "").split("+")) - {""}
    em = ST.Emitter(leaf_emit, [])
    lines = []
    em._seq(prog, lines, "  ", [])
    args = [f"%abig : memref<16xi32>" if "sub" in v else f"%a : {MT}"] + ([] if "glob" in v else [f"%b : {MT}"]) + [f"%n{k} : index" for k in range(em.nfor)]
    pre = [f"  %c = memref.alloc() : {MT}"]
    glob = ""
    if "sub" in v:
        pre.append(f"  %a = memref.subview %abig[4] [8] [1] : memref<16xi32> to memref<8xi32, strided<[1], offset: 4>>")
    if "glob" in v:
        glob = f'  "memref.global"() <{{sym_name = "gb", type = {MT}, initial_value, sym_visibility = "private"}}> : () -> ()\n'
        pre.append(f"  %b = memref.get_global @gb : {MT}")
    ret = f" -> {MT}" if "ret" in v else ""
    text = "builtin.module {\n" + glob + "func.func public @f(" + ", ".join(args) + ")" + ret + " {\n  %zero = arith.constant 0 : index\n  %one = arith.constant 1 : index\n"
    text += "\n".join(pre + lines) + ("\n  func.return %c : " + MT if "ret" in v else "\n  func.return") + "\n}\n}\n"
    if "dyn" in v:
        # 2-D buffers whose SECOND dimension is only known at run time (4 x ?): stand-in buffers must get the run-time shape of what they stand for
        text = text.replace(f"  %c = memref.alloc() : {MT}", f"  %dd = memref.dim %a, %one : {MT}\n  %c = memref.alloc(%dd) : {MT}")
        text = text.replace(MT, "memref<4x?xi32>").replace("affine_map<(d0) -> (d0)>", "affine_map<(d0, d1) -> (d0, d1)>").replace('iterator_types = ["parallel"]', 'iterator_types = ["parallel", "parallel"]')
    if "priv" in v:
        # a private function with a body: its arguments carry no memory space at all (only public functions are tagged L3)
        text = text.replace("func.func public @f", "func.func private @f")
    if "sub" in v:
        st = "memref<8xi32, strided<[1], offset: 4>>"
        text = text.replace(f"ins(%a : {MT})", f"ins(%a : {st})").replace(f"outs(%a : {MT})", f"outs(%a : {st})")
    return text, em.nfor


class BufMachine:
    def __init__(self):
        self.mem = {}
        self.obs = []
        self.nalloc = 0
        self.counts = {}
        self.operand_spaces = []
        self.problems = []

    def term(self, v):
        return self.mem.get(v.buf, ("init", v.buf[0]))

    def h_alloc(self, it, op):
        self.nalloc += 1
        ty = op.results[0].type
        dyn = [it.get(o) for o in op.operands]
        shape = [dyn.pop(0) if n < 0 else n for n in ty.get_shape()]
        return [View(("alloc", self.nalloc), 4, 0, shape, [1] * len(shape), 0x100 * self.nalloc)]

    def h_copy(self, it, op):
        s, d = it.get(op.operands[0]), it.get(op.operands[1])
        if list(s.sizes) != list(d.sizes):
            self.problems.append(f"memref.copy between buffers of run-time shapes {list(s.sizes)} and {list(d.sizes)}")
        self.mem[d.buf] = self.term(s)
        return []

    def h_generic(self, it, op):
        ident = op.attributes.get("verif.id")
        t = ident.value.data if ident is not None else -1
        self.counts[t] = self.counts.get(t, 0) + 1
        ins = [it.get(o) for o in op.inputs]
        outs = [it.get(o) for o in op.outputs]
        reads_out = any(op.body.block.args[-1].uses)
        seen = tuple(self.term(v) for v in ins) + (tuple(self.term(v) for v in outs) if reads_out else ())
        self.obs.append(((t, self.counts[t]), seen))
        for v in outs:
            self.mem[v.buf] = ("f", t, seen)
        for o in list(op.inputs) + list(op.outputs):
            ms = o.type.memory_space
            self.operand_spaces.append(getattr(ms, "data", None))
        return [None for _ in op.results]

    def handlers(self):
        h = dict(mem_handlers())
        h.update({"memref.alloc": self.h_alloc, "memref.copy": self.h_copy, "linalg.generic": self.h_generic, "snax.layout_cast": lambda it, op: [it.get(op.operands[0])]})
        return h


def run_prog(mod, trips, variant=None):
    v = set((variant or "").split("+")) - {""}
    m = BufMachine()
    h = m.handlers()
    h["memref.get_global"] = lambda it, op: [View(("b", 0), 4, 0, [8], [1], 0x20)]
    it = Interp(handlers=h, budget=20000)
    a = View(("a", 0), 4, 0, [16], [1], 0x10) if "sub" in v else View(("a", 0), 4, 0, [8], [1], 0x10)
    b = View(("b", 0), 4, 0, [8], [1], 0x20)
    if "dyn" in v:
        a = View(("a", 0), 4, 0, [4, 6], [6, 1], 0x10)
        b = View(("b", 0), 4, 0, [4, 6], [6, 1], 0x20)
    term, vals = it.run_func(find_func(mod, "f"), [a] + ([] if "glob" in v else [b]) + list(trips))
    m.returned = [m.term(x) if isinstance(x, View) else x for x in (vals or [])]
    return m, it.steps


def eval_prog(r, prog, only=None, variant=None):
    text, nfor = build_prog(prog, variant)
    key = f"prog|{prog!r}" + (f"|{variant}" if variant else "")
    try:
        base = common.parse(text)
        base.verify()
    except Exception as e:
        raise RuntimeError(f"generator bug: {e}\n{text}")
    out = base.clone()
    try:
        # clear: the late clear-memory-space pass is run as well (it erases the memory spaces again, so only the data flow is compared)
        cleared = "clear" in (variant or "")
        common.run_pipeline(out, "set-memory-space,realize-memref-casts" + (",clear-memory-space" if cleared else ""))
    except Exception as e:
        r.rejected = "pass:" + type(e).__name__
        r.count("exc:" + type(e).__name__ + ":" + str(e)[:60])
        return
    out_text = common.to_text(out)
    r.nontrivial = "memref.copy" in out_text
    r.count("programs_with_materialised_casts", int("memref.copy" in out_text))
    # function boundary keeps its external memory space
    f = find_func(out, "f")
    for t in f.function_type.inputs:
        ms = getattr(t, "memory_space", None)
        if not cleared and ms is not None and hasattr(ms, "data") and ms.data != "L3":
            r.violate(key + "|signature", dict(kind="prog", prog=prog, trips=None), f"function argument type {t} does not keep the external memory space L3")
    for t in f.function_type.outputs:
        ms = getattr(t, "memory_space", None)
        if not cleared and ms is not None and hasattr(ms, "data") and ms.data != "L3":
            r.violate(key + "|signature-out", dict(kind="prog", prog=prog, trips=None, variant=variant), f"function result type {t} does not keep the external memory space L3")
    obs_all = []
    for trips in itertools.product([0, 1, 2], repeat=nfor):
        if only is not None and list(trips) != only:
            continue
        m0, s0 = run_prog(base, trips, variant)
        try:
            m1, s1 = run_prog(out, trips, variant)
        except UseBeforeDef as e:
            r.violate(key + f"|{trips}|ubd", dict(kind="prog", prog=prog, trips=list(trips), output_ir=out_text), f"use before def after the passes: {e}")
            continue
        r.transitions += s0 + s1
        r.states += len(m0.obs)
        r.validated += 1
        case_j = dict(kind="prog", prog=prog, trips=list(trips), variant=variant, output_ir=out_text)
        obs_all.append(hash(repr(m0.obs)))
        if m0.obs != m1.obs:
            i = next((k for k, (x, y) in enumerate(zip(m0.obs, m1.obs)) if x != y), min(len(m0.obs), len(m1.obs)))
            x = m0.obs[i] if i < len(m0.obs) else None
            y = m1.obs[i] if i < len(m1.obs) else None
            r.violate(key + f"|{trips}|observe", case_j, f"op instance {x[0] if x else y[0]} should read {x[1] if x else None} but after the passes reads {y[1] if y else None}; trips={trips}; program {prog!r}")
            continue
        for bname in ("a", "b"):
            t0, t1 = m0.mem.get((bname, 0), ("init", bname)), m1.mem.get((bname, 0), ("init", bname))
            if t0 != t1:
                r.violate(key + f"|{trips}|final", case_j, f"final contents of argument buffer {bname}: {t1} instead of {t0} (copy back missing or misplaced); trips={trips}; program {prog!r}")
                break
        for pb in m1.problems[:1]:
            r.violate(key + f"|{trips}|shape", case_j, f"{pb}; trips={trips}; program {prog!r} ({variant})")
        if m0.returned != m1.returned:
            r.violate(key + f"|{trips}|returned", case_j, f"the returned buffer holds {m1.returned} instead of {m0.returned}; trips={trips}; program {prog!r} ({variant})")
        if not cleared and any(s != "L1" for s in m1.operand_spaces):
            r.violate(key + f"|{trips}|space", case_j, f"an accelerator operand is not in L1 after the passes: {set(m1.operand_spaces)}; program {prog!r}")
    r.obs = (prog, variant, tuple(obs_all))
    r.sample = dict(kind="prog", program=text, output=out_text[:1500])


# ------------------------------------------------------------------------------------------------ constants

_LAY = []


def dense_layouts():
    """(shape, dims) for every 2-level factorisation of every dim x every stride order (dense packings)"""
    if _LAY:
        return _LAY
    for shape in [(4,), (6,), (2, 3), (4, 4), (4, 6), (2, 2, 2)]:
        facts = [[(a, n // a) for a in range(1, n + 1) if n % a == 0] for n in shape]
        for fs in itertools.product(*facts):
            bounds = [b for f in fs for b in f]
            k = len(bounds)
            orders = list(itertools.permutations(range(k)))
            if k > 4:
                orders = orders[:: 7]
            for order in orders:
                steps = [0] * k
                acc = 1
                for pos in order:
                    steps[pos] = acc
                    acc *= bounds[pos]
                dims, p = [], 0
                for f in fs:
                    dims.append([(f[0], steps[p]), (f[1], steps[p + 1])])
                    p += 2
                _LAY.append((shape, dims))
    return _LAY


def tsl_text(dims):
    return "#tsl.tsl<" + ", ".join("[" + ", ".join(str(b) for b, _ in d) + "] -> (" + ", ".join(str(s) for _, s in d) + ")" for d in dims) + ">"


def eval_const(r, idx, elw, route):
    from xdsl.dialects.builtin import DenseIntOrFPElementsAttr, IntegerType, MemRefType, TensorType
    from xdsl.parser import Parser

    from snaxc.transforms.realize_memref_casts import transform_constant

    shape, dims = dense_layouts()[idx]
    n = 1
    for x in shape:
        n *= x
    el = {1: "i8", 4: "i32"}[elw]
    vals = list(range(1, n + 1))
    lay = tsl_text(dims)
    key = f"const|{shape}|{dims}|{elw}|{route}"
    case = dict(kind="const", idx=idx, elw=elw, route=route)
    addr = {idx_: ref.addr(dims, idx_) for idx_ in ref.box(list(shape))}
    perm = sorted(addr.values()) != list(range(n)) or [addr[i] for i in ref.box(list(shape))] != list(range(n))
    r.nontrivial = perm
    r.obs = ("const", shape, tuple(map(tuple, dims)), elw, route)
    r.states = n
    r.sample = dict(kind="const", shape=shape, layout=lay, route=route)
    want = [None] * n
    for k, idx_ in enumerate(ref.box(list(shape))):
        want[addr[idx_]] = vals[k]
    shp = "x".join(map(str, shape))
    dense = "dense<[" + ", ".join(map(str, vals)) + "]>" if len(shape) == 1 else None
    if route == "direct":
        src = DenseIntOrFPElementsAttr.from_list(TensorType(IntegerType(8 * elw), list(shape)), vals)
        lattr = Parser(common.ctx(), lay).parse_attribute()
        new = transform_constant(src, lattr)
        if new is None:
            if not perm:
                return
            r.rejected = "transform-none"
            return
        got = list(new.get_values())
        r.validated = 1
    else:
        # through the rewrite patterns: constant / global -> layout_cast -> accelerator op
        def nested(vs, shp_):
            if len(shp_) == 1:
                return "[" + ", ".join(map(str, vs)) + "]"
            step = len(vs) // shp_[0]
            return "[" + ", ".join(nested(vs[i * step : (i + 1) * step], shp_[1:]) for i in range(shp_[0])) + "]"

        dtext = "dense<" + nested(vals, list(shape)) + ">"
        mt = f"memref<{shp}x{el}>"
        mtl = f"memref<{shp}x{el}, {lay}>"
        use = f'  "test.op"(%l) : ({mtl}) -> ()'
        if route == "arith":
            text = f'builtin.module {{\nfunc.func @f() {{\n  %k = arith.constant {dtext} : {mt}\n  %l = "snax.layout_cast"(%k) : ({mt}) -> {mtl}\n{use}\n  func.return\n}}\n}}\n'
        else:
            text = (
                f'builtin.module {{\n  "memref.global"() <{{sym_name = "g", type = {mt}, initial_value = {dtext} : tensor<{shp}x{el}>, sym_visibility = "private", constant}}> : () -> ()\n'
                f'func.func @f() {{\n  %k = memref.get_global @g : {mt}\n  %l = "snax.layout_cast"(%k) : ({mt}) -> {mtl}\n{use}\n  func.return\n}}\n}}\n'
            )
        try:
            mod = common.compile_text(text, "realize-memref-casts")
        except common.Rejected as e:
            r.rejected = e.kind
            r.count("const_rejected:" + str(e)[:70])
            return
        got = None
        for op in mod.walk():
            if op.name == "arith.constant" and hasattr(op.value, "get_values") and route == "arith":
                if len(list(op.value.get_values())) == n:
                    got = list(op.value.get_values())
                    gty = op.results[0].type
            if op.name == "memref.global" and route == "global":
                got = list(op.initial_value.get_values())
                gty = op.type
        if got is None:
            r.rejected = "no-constant-found"
            return
        out_text = common.to_text(mod)
        if "memref.copy" in out_text:
            # the cast was materialised by a copy instead: data stays row-major, nothing to compare here
            r.count("const_not_folded")
            return
        if lay.replace(" ", "") not in str(gty).replace(" ", "") and perm:
            r.violate(key + "|type", case, f"constant was rewritten but its type {gty} does not carry the target layout {lay}")
        r.validated = 1
    r.transitions = n
    if got != want:
        r.violate(key + "|data", case, f"re-laid-out constant for {lay} on shape {shape}: data {got} but the layout prescribes {want} (route {route})")


# ------------------------------------------------------------------------------------------------ subviews of a global


def type_addr(ty):
    """(address function over logical indices, in elements, relative to the buffer the value is a view of) described by a memref type"""
    lay = ty.layout
    shape = list(ty.get_shape())
    if hasattr(lay, "data") and hasattr(lay.data, "tstrides"):
        dims = [[(s.bound, s.step) for s in ts.strides] for ts in lay.data.tstrides]
        off = lay.data.offset or 0
        return lambda idx: ref.addr(dims, idx) + off
    if type(lay).__name__ == "StridedLayoutAttr":
        st = [x.data for x in lay.strides.data]
        off = lay.offset.data if isinstance(getattr(lay.offset, "data", None), int) else 0
        return lambda idx: off + sum(i * s_ for i, s_ in zip(idx, st))
    st, acc = [], 1
    for n in reversed(shape):
        st.insert(0, acc)
        acc *= n
    return lambda idx: sum(i * s_ for i, s_ in zip(idx, st))


def read_through(mod, value, idx, depth=0):
    """the element a reader of `value` sees at logical index idx, following the final IR: global data through the view types, allocations through the copy that fills them"""
    from xdsl.ir import OpResult

    assert depth < 12
    if not isinstance(value, OpResult):
        raise ValueError("block argument")
    op = value.op
    if op.name in ("memref.memory_space_cast", "memref.cast"):
        return read_through(mod, op.operands[0], idx, depth + 1)
    if op.name == "memref.alloc" or op.name == "snax.alloc":
        for use in value.uses:
            if use.operation.name == "memref.copy" and use.index == 1:
                return read_through(mod, use.operation.operands[0], idx, depth + 1)
        raise ValueError("allocation that is never filled")
    if op.name in ("memref.subview", "memref.get_global"):
        root = value
        base = 0
        if op.name == "memref.subview":
            src = op.operands[0]
            if not (isinstance(src, OpResult) and src.op.name == "memref.get_global"):
                raise ValueError("subview of a non-global")
            offs = [x for x in op.static_offsets.get_values()]
            rl = value.type.layout
            if hasattr(rl, "data") and hasattr(rl.data, "tstrides"):
                # tile of a tiled-strided buffer: pointer of the tile + the tile's own layout (documented lowering: convert-memref-to-arith)
                base = type_addr(src.type)(offs)
            root = src
            a = base + type_addr(value.type)(idx)
        else:
            a = type_addr(value.type)(idx)
        gname = root.op.name_.string_value()
        for g in mod.walk():
            if g.name == "memref.global" and g.sym_name.data == gname:
                data = list(g.initial_value.get_values())
                return data[a] if 0 <= a < len(data) else ("out-of-bounds", a)
        raise ValueError("global not found")
    raise ValueError("unsupported producer " + op.name)


def eval_subglobal(r, idx, ntiles, nviews):
    shape, dims = dense_layouts()[idx]
    if len(shape) != 2:
        r.rejected = "rank"
        return
    R, C = shape
    n = R * C * ntiles
    vals = list(range(1, n + 1))
    lay = tsl_text(dims)
    key = f"subglobal|{shape}|{dims}|{ntiles}|{nviews}"
    case = dict(kind="subglobal", idx=idx, ntiles=ntiles, nviews=nviews)

    def nested(vs, shp_):
        if len(shp_) == 1:
            return "[" + ", ".join(map(str, vs)) + "]"
        step = len(vs) // shp_[0]
        return "[" + ", ".join(nested(vs[i * step : (i + 1) * step], shp_[1:]) for i in range(shp_[0])) + "]"

    gshape = [R * ntiles, C]
    gt = f"memref<{gshape[0]}x{C}xi32>"
    lines = [f"  %k = memref.get_global @g : {gt}"]
    for t in range(nviews):
        st = f"memref<{R}x{C}xi32, strided<[{C}, 1], offset: {t * R * C}>>"
        lines.append(f"  %s{t} = memref.subview %k[{t * R}, 0] [{R}, {C}] [1, 1] : {gt} to {st}")
        lines.append(f'  %l{t} = "snax.layout_cast"(%s{t}) : ({st}) -> memref<{R}x{C}xi32, {lay}>')
        lines.append(f'  "test.op"(%l{t}) {{verif.id = {t} : i32}} : (memref<{R}x{C}xi32, {lay}>) -> ()')
    text = (
        f'builtin.module {{\n  "memref.global"() <{{sym_name = "g", type = {gt}, initial_value = dense<{nested(vals, gshape)}> : tensor<{gshape[0]}x{C}xi32>, sym_visibility = "private", constant}}> : () -> ()\n'
        "func.func @f() {\n" + "\n".join(lines) + "\n  func.return\n}\n}\n"
    )
    r.obs = ("subglobal", shape, tuple(map(tuple, dims)), ntiles, nviews)
    r.states = n
    r.nontrivial = True
    r.sample = dict(kind="subglobal", tile=shape, layout=lay, tiles=ntiles, views=nviews)
    try:
        mod = common.compile_text(text, "realize-memref-casts")
    except common.Rejected as e:
        r.rejected = e.kind
        r.count("subglobal_rejected:" + str(e)[:70])
        return
    out_text = common.to_text(mod)
    r.count("subglobal_global_transformed", int("g_transformed" in out_text))
    r.validated = 1
    for op in mod.walk():
        if op.name != "test.op" and not (op.name == "builtin.unregistered" and op.op_name.data == "test.op"):
            continue
        t = op.attributes["verif.id"].value.data
        for i, j in itertools.product(range(R), range(C)):
            r.transitions += 1
            want = vals[(t * R + i) * C + j]
            try:
                got = read_through(mod, op.operands[0], [i, j])
            except ValueError as e:
                r.count("subglobal_unreadable:" + str(e)[:40])
                return
            if got != want:
                r.violate(key + "|data", dict(case, output_ir=out_text), f"tile {t} of the global, element ({i}, {j}): the consumer reads {got}, the global holds {want} there; layout {lay}, {ntiles} tiles, {nviews} views")
                return


def eval_transpose(r, rows, cols):
    from snaxc.transforms.frontend.remove_transpose_constants import RemoveTransposeConstants

    # input tensor of shape (s0, s1) row-major; transpose_tuple is called with (*shape) = (s0, s1)
    s0, s1 = rows, cols
    arr = list(range(s0 * s1))
    got = list(RemoveTransposeConstants().transpose_tuple(arr, s0, s1))
    want = [arr[y * s1 + x] for x in range(s1) for y in range(s0)]  # out[x, y] = in[y, x], out shape (s1, s0) row-major
    r.obs = ("transpose", rows, cols)
    r.states = 1
    r.validated = 1
    r.nontrivial = rows > 1 and cols > 1
    r.sample = dict(kind="transpose", shape=[s0, s1])
    if got != want:
        r.violate(f"transpose|{rows}|{cols}", dict(kind="transpose", rows=rows, cols=cols), f"transpose_tuple of a {s0}x{s1} constant gives {got[:8]}..., expected {want[:8]}...")
        return
    # the rewrite pattern itself on a transposing linalg.generic over a constant tensor (applied the way preprocess-mlir applies it)
    from xdsl.pattern_rewriter import PatternRewriteWalker

    rows_txt = "[" + ", ".join("[" + ", ".join(str(arr[y * s1 + x]) for x in range(s1)) + "]" for y in range(s0)) + "]"
    for el in ("i32", "i8"):
        text = (
            f"builtin.module {{\nfunc.func @f() -> tensor<{s1}x{s0}x{el}> {{\n  %k = arith.constant dense<{rows_txt}> : tensor<{s0}x{s1}x{el}>\n  %e = tensor.empty() : tensor<{s1}x{s0}x{el}>\n"
            f'  %t = linalg.generic {{indexing_maps = [affine_map<(d0, d1) -> (d1, d0)>, affine_map<(d0, d1) -> (d0, d1)>], iterator_types = ["parallel", "parallel"]}} '
            f"ins(%k : tensor<{s0}x{s1}x{el}>) outs(%e : tensor<{s1}x{s0}x{el}>) {{\n  ^bb0(%a : {el}, %b : {el}):\n    linalg.yield %a : {el}\n  }} -> tensor<{s1}x{s0}x{el}>\n"
            f"  func.return %t : tensor<{s1}x{s0}x{el}>\n}}\n}}\n"
        )
        mod = common.parse(text)
        mod.verify()
        try:
            PatternRewriteWalker(RemoveTransposeConstants(), apply_recursively=False).rewrite_module(mod)
            mod.verify()
        except Exception as e:
            r.count("transpose_pattern_rejected:" + type(e).__name__)
            continue
        ret = next(op for op in mod.walk() if op.name == "func.return")
        src = ret.operands[0].owner
        r.transitions += 1
        if src.name != "arith.constant":
            r.count("transpose_not_folded")
            continue
        data = list(src.value.get_values())
        if data != want or str(src.results[0].type) != f"tensor<{s1}x{s0}x{el}>":
            r.violate(f"transpose|{rows}|{cols}|{el}|pattern", dict(kind="transpose", rows=rows, cols=cols), f"RemoveTransposeConstants folds the transpose of a {s0}x{s1} constant to {data[:8]}... : {src.results[0].type}, expected {want[:8]}...")


def space(tier):
    cases = [("prog", p) for p in prog_space(tier)]
    # other buffer provenances (subview of an argument, global, returned allocation) on the programs with <= 2 ops
    for p in prog_space(tier):
        if ST.count(p, lambda s_: s_[0] == "G") <= 2:
            for v in VARIANTS:
                cases.append(("prog", p, v))
    for i in range(len(dense_layouts())):
        for elw in (1, 4):
            cases.append(("const", i, elw, "direct"))
        for route in ("arith", "global"):
            cases.append(("const", i, 4, route))
    for i, (shape, _) in enumerate(dense_layouts()):
        if len(shape) == 2:
            for ntiles, nviews in ((1, 1), (2, 1), (2, 2), (3, 2)):
                cases.append(("subglobal", i, ntiles, nviews))
    for rws in range(1, 6):
        for cls in range(1, 6):
            cases.append(("transpose", rws, cls))
    return cases


def evaluate(case) -> CaseResult:
    r = CaseResult()
    if case[0] == "prog":
        eval_prog(r, case[1], variant=case[2] if len(case) > 2 else None)
    elif case[0] == "const":
        eval_const(r, *case[1:])
    elif case[0] == "subglobal":
        eval_subglobal(r, *case[1:])
    else:
        eval_transpose(r, *case[1:])
    r.count("cases_" + case[0])
    return r


def replay(case):
    r = CaseResult()
    if case["kind"] == "prog":
        eval_prog(r, ST.from_json(case["prog"]), only=case.get("trips"), variant=case.get("variant"))
    elif case["kind"] == "const":
        eval_const(r, case["idx"], case["elw"], case["route"])
    elif case["kind"] == "subglobal":
        eval_subglobal(r, case["idx"], case["ntiles"], case["nviews"])
    else:
        eval_transpose(r, case["rows"], case["cols"])
    return r.violations
