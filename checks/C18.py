"""C18 — kernel recognition and expansion preserve the scalar function.

Shape A/C. Every linalg.generic body with <= k ops from {addi, muli, subi, extsi} over 2-5 block arguments (every wiring, operand
order and type assignment that type-checks) -> real convert-linalg-to-kernel -> (if a kernel op appeared) real
convert-kernel-to-linalg. The scalar function of the body is evaluated before and after on all tuples over boundary values of
each operand width; an unrecognised body must be textually unchanged; a recognised kernel op is additionally evaluated by an
independent semantics of the named kernel. Dispatch: library_call set only if the accelerator declares that kernel with exactly
those operand/result types. Rescale: LowerRescale vs the repository's golden model over a parameter grid.
"""
from __future__ import annotations

import itertools

import numpy as np

from mc import common
from mc.driver import CaseResult
from mc.space import Concat, Product, Tagged
from machines.ir import Interp, wrap

PID = "C18"
RULE = (
    "bodies: all op sequences of length 1..3 over {addi, muli, subi, extsi} with every operand wiring over block arguments and earlier "
    "results, every type assignment from the width set (quick {i8,i32}, thorough {i8,i16,i32}) that type-checks, every op used; 2..4 inputs + the "
    "output argument (3-op bodies over <= 3 block arguments in quick, <= 4 in thorough; 5 block arguments only with the qmac type pattern); hand-given "
    "bodies with one kernel op (kmix) and tosa.rescale (+clamp) programs. Inputs: all tuples over {min,-1,0,1,3,max} per width (4 values for >= 4 args). dispatch: every kernel op x operand type combination x "
    "registered accelerator declarations. rescale: zp x multiplier x shift x clamp grid on boundary inputs. distinct = distinct bodies; non-trivial = "
    "a kernel was recognised"
)
ASSUMPTIONS = [
    "two's-complement wrap-around semantics of arith on iN (machines/ir.py); extsi sign-extends",
    "named kernel semantics: add = a+b, mul = a*b, mac = acc + ext(a)*ext(b), qmac = acc + (ext(a)-zp_a)*(ext(b)-zp_b) (kernel.py docstrings)",
    "LowerRescale documents that it ignores double rounding and per-channel parameters: compared with the golden model for double_round = 0, one channel",
]
BOUNDS = {"quick": dict(max_ops=3, widths=[8, 32]), "thorough": dict(max_ops=3, widths=[8, 16, 32])}
CASE_TIMEOUT = 60
BIN = ["addi", "muli", "subi"]

_BODIES = {}


def bodies(tier):
    """(arg_types tuple (inputs..., out), ops tuple) ; op = (kind, refs, result_width); ref = ('a',i)|('r',j)"""
    if tier in _BODIES:
        return _BODIES[tier]
    b = BOUNDS[tier]
    W = b["widths"]
    out = []
    for nin in (2, 3, 4):
        for atypes in itertools.product(W, repeat=nin + 1):
            # search op sequences
            def rec(ops, vals):
                # vals: list of (ref, width)
                if ops:
                    # complete if last result has out width and all results used
                    used = set()
                    for k, (kind, refs, w) in enumerate(ops):
                        for rf in refs:
                            if rf[0] == "r":
                                used.add(rf[1])
                    if ops[-1][2] == atypes[-1] and all(j in used for j in range(len(ops) - 1)):
                        # every input argument (not the out arg) should be used at least once? no: allow unused
                        out.append((atypes, tuple(ops)))
                if len(ops) >= b["max_ops"]:
                    return
                j = len(ops)
                for kind in BIN:
                    for (r1, w1) in vals:
                        for (r2, w2) in vals:
                            if w1 != w2:
                                continue
                            rec(ops + [(kind, (r1, r2), w1)], vals + [(("r", j), w1)])
                for (r1, w1) in vals:
                    for w2 in W:
                        if w2 > w1:
                            rec(ops + [("extsi", (r1,), w2)], vals + [(("r", j), w2)])

            vals0 = [(("a", i), atypes[i]) for i in range(nin + 1)]
            if nin >= 4:
                # 4 inputs (qmac shape): restrict to the type pattern (n, n, m, m, m) to keep the space finite
                if not (atypes[0] == atypes[1] and atypes[2] == atypes[3] == atypes[4]):
                    continue
            rec([], vals0)
    res = []
    for (atypes, ops) in out:
        # 3+-op bodies cannot match a kernel of the dialect for 4/5 block arguments unless they have the kernel's op kinds:
        # keep all bodies with <= 2 ops, all 3-op bodies over 3 block arguments (quick) / everything (thorough)
        if len(ops) >= 3 and len(atypes) > (3 if tier == "quick" else 4):
            continue
        res.append((atypes, ops))
    res += family_mac_extsi() + family_qmac()
    _BODIES[tier] = res
    return res


def _all_wirings(atypes, kinds, W=(8, 32)):
    """every type-correct wiring of a fixed op-kind sequence (extsi always widens to 32), last result of out type, every op used"""
    out = []

    def rec(j, ops, vals):
        if j == len(kinds):
            used = {rf[1] for (_, refs, _) in ops for rf in refs if rf[0] == "r"}
            if ops[-1][2] == atypes[-1] and all(i in used for i in range(len(ops) - 1)):
                out.append((atypes, tuple(ops)))
            return
        k = kinds[j]
        if k == "extsi":
            for (r1, w1) in vals:
                if w1 < 32:
                    rec(j + 1, ops + [("extsi", (r1,), 32)], vals + [(("r", j), 32)])
        else:
            for (r1, w1) in vals:
                for (r2, w2) in vals:
                    if w1 == w2:
                        rec(j + 1, ops + [(k, (r1, r2), w1)], vals + [(("r", j), w1)])

    rec(0, [], [(("a", i), atypes[i]) for i in range(len(atypes))])
    return out


def family_mac_extsi():
    """all orderings and wirings of the op kinds of the sign-extending mac {extsi, extsi, muli, addi} over (i8, i8, i32) and (i8, i32, i32)"""
    out = []
    for atypes in ((8, 8, 32), (8, 32, 32)):
        for kinds in sorted(set(itertools.permutations(["extsi", "extsi", "muli", "addi"]))):
            out += _all_wirings(atypes, kinds)
    return out


def family_qmac():
    """the quantised mac body (6 ops) and every single-operand substitution / operand swap of it, over (i8, i8, i32, i32, i32)"""
    atypes = (8, 8, 32, 32, 32)
    base = [
        ("extsi", (("a", 0),), 32),
        ("subi", (("r", 0), ("a", 2)), 32),
        ("extsi", (("a", 1),), 32),
        ("subi", (("r", 2), ("a", 3)), 32),
        ("muli", (("r", 1), ("r", 3)), 32),
        ("addi", (("a", 4), ("r", 4)), 32),
    ]
    out = [(atypes, tuple(base))]
    for j, (kind, refs, w) in enumerate(base):
        avail = [(("a", i), atypes[i]) for i in range(5)] + [(("r", i), base[i][2]) for i in range(j)]
        for slot in range(len(refs)):
            for (rf, wv) in avail:
                want_w = 8 if kind == "extsi" else 32
                if wv != want_w or rf == refs[slot]:
                    continue
                new = list(base)
                nr = list(refs)
                nr[slot] = rf
                new[j] = (kind, tuple(nr), w)
                used = {r_[1] for (_, rs, _) in new for r_ in rs if r_[0] == "r"}
                if all(i in used for i in range(5)):
                    out.append((atypes, tuple(new)))
        if len(refs) == 2:
            new = list(base)
            new[j] = (kind, (refs[1], refs[0]), w)
            out.append((atypes, tuple(new)))
    return out


def space(tier):
    parts = [Tagged("body", Product(range(len(bodies(tier))), [tier]))]
    parts.append(Tagged("dispatch", Product(range(len(dispatch_cases())))))
    parts.append(Tagged("rescale", Product(range(len(rescale_cases(tier))), [tier])))
    parts.append(Tagged("kmix", Product(range(len(kmix_cases())))))
    parts.append(Tagged("tosa", Product(range(len(tosa_cases())))))
    return Concat(*parts)


def ty(w):
    return f"i{w}"


def body_text(atypes, ops):
    nin = len(atypes) - 1
    lines = []
    names = {("a", i): f"%a{i}" for i in range(nin + 1)}
    for j, (kind, refs, w) in enumerate(ops):
        names[("r", j)] = f"%r{j}"
        if kind == "extsi":
            src_w = _width_of(refs[0], atypes, ops)
            lines.append(f"    %r{j} = arith.extsi {names[refs[0]]} : {ty(src_w)} to {ty(w)}")
        else:
            lines.append(f"    %r{j} = arith.{kind} {names[refs[0]]}, {names[refs[1]]} : {ty(w)}")
    lines.append(f"    linalg.yield %r{len(ops) - 1} : {ty(atypes[-1])}")
    maps = ", ".join(["affine_map<(d0) -> (d0)>"] * (nin + 1))
    ins = ", ".join(f"%m{i}" for i in range(nin))
    ins_t = ", ".join(f"memref<8x{ty(atypes[i])}>" for i in range(nin))
    fargs = ", ".join(f"%m{i} : memref<8x{ty(atypes[i])}>" for i in range(nin + 1))
    bargs = ", ".join(f"%a{i} : {ty(atypes[i])}" for i in range(nin + 1))
    text = (
        "builtin.module {\nfunc.func @f(" + fargs + ") {\n"
        f'  linalg.generic {{indexing_maps = [{maps}], iterator_types = ["parallel"]}} ins({ins} : {ins_t}) outs(%m{nin} : memref<8x{ty(atypes[-1])}>) {{\n'
        f"  ^bb0({bargs}):\n" + "\n".join(lines) + "\n  }\n  func.return\n}\n}\n"
    )
    return text


def _width_of(ref, atypes, ops):
    return atypes[ref[1]] if ref[0] == "a" else ops[ref[1]][2]


def eval_body(atypes, ops, args):
    vals = {("a", i): a for i, a in enumerate(args)}
    for j, (kind, refs, w) in enumerate(ops):
        if kind == "extsi":
            v = vals[refs[0]]
        else:
            a, b = vals[refs[0]], vals[refs[1]]
            v = a + b if kind == "addi" else (a * b if kind == "muli" else a - b)
        vals[("r", j)] = wrap(v, w)
    return vals[("r", len(ops) - 1)]


def boundary(w, small):
    lo, hi = -(1 << (w - 1)), (1 << (w - 1)) - 1
    return [lo, -1, 2, hi] if small else [lo, -1, 0, 1, 3, hi]


def find_generic(mod):
    for op in mod.walk():
        if op.name == "linalg.generic":
            return op
    return None


def kernel_semantics(op, argvals, atypes):
    """independent meaning of a named kernel op given block-arg values (inputs..., out)"""
    name = op.name
    rw = op.results[0].type.width.data
    if name == "kernel.add":
        return wrap(argvals[0] + argvals[1], rw)
    if name == "kernel.mul":
        return wrap(argvals[0] * argvals[1], rw)
    if name == "kernel.mac":
        return wrap(argvals[2] + argvals[0] * argvals[1], rw)
    if name == "kernel.qmac":
        return wrap(argvals[4] + (argvals[0] - argvals[2]) * (argvals[1] - argvals[3]), rw)
    return None


def run_block(block, args):
    it = Interp(budget=1000)
    res = it.run_block(block, list(args))
    return res[2][0]


def eval_body_case(r: CaseResult, idx, tier):
    atypes, ops = bodies(tier)[idx]
    text = body_text(atypes, ops)
    key = f"body|{atypes}|{ops}"
    case = dict(kind="body", idx=idx, tier=tier, atypes=atypes, ops=ops)
    try:
        mod = common.compile_text(text, "convert-linalg-to-kernel")
    except common.Rejected as e:
        r.rejected = e.kind
        return
    g = find_generic(mod)
    first = g.body.block.first_op
    recognised = first.name.startswith("kernel.")
    r.obs = (atypes, ops, first.name if recognised else None)
    r.nontrivial = recognised
    r.states = 1
    r.validated = 1
    r.count("recognised_" + first.name if recognised else "unrecognised")
    r.sample = dict(body=text, recognised=first.name if recognised else None)
    if not recognised:
        orig = common.parse(text)
        if common.to_text(orig) != common.to_text(mod):
            r.violate(key + "|changed", case, f"body was not recognised as a kernel but the pass changed it: {text}")
        return
    # recognised: evaluate original function vs (a) independent kernel semantics, (b) the kernel's own expansion
    exp = mod.clone()
    try:
        common.run_pipeline(exp, "convert-kernel-to-linalg")
    except Exception as e:
        r.rejected = "expand:" + type(e).__name__
        return
    gexp = find_generic(exp)
    if any(o.name.startswith("kernel.") for o in gexp.body.block.ops):
        r.violate(key + "|not-expanded", case, f"convert-kernel-to-linalg left {first.name} unexpanded")
        return
    nargs = len(atypes)
    doms = [boundary(w, nargs >= 4) for w in atypes]
    bad_sem = bad_exp = None
    for args in itertools.product(*doms):
        want = eval_body(atypes, ops, args)
        r.transitions += 1
        ks = kernel_semantics(first, args, atypes)
        if ks is not None and ks != want and bad_sem is None:
            bad_sem = f"inputs {args}: body computes {want}, {first.name} means {ks}"
        got = run_block(gexp.body.block, args)
        if got != want and bad_exp is None:
            bad_exp = f"inputs {args}: body computes {want}, after recognition + expansion it computes {got}"
        if bad_sem and bad_exp:
            break
    if bad_sem:
        r.violate(key + "|recognition", case, f"a body that does not compute {first.name} was replaced by it: {bad_sem}; body ops {ops} types {atypes}")
    if bad_exp:
        r.violate(key + "|roundtrip", case, f"recognition followed by expansion changes the function: {bad_exp}; body ops {ops} types {atypes}")


# ------------------------------------------------------------------------------------------------ dispatch

_DISP = []


def dispatch_cases():
    if _DISP:
        return _DISP
    W = [8, 16, 32, 64]
    # modules that declare BOTH accelerators, in either order: the library call must name an accelerator that declares the kernel
    for acc in ("snax_gemmx+snax_alu", "snax_alu+snax_gemmx"):
        for k in ("add", "mul", "mac"):
            for t in itertools.product([8, 32, 64], repeat=3):
                _DISP.append((acc, k, t))
    for acc in ("snax_gemmx", "snax_alu"):
        for k in ("add", "mul", "mac"):
            for t in itertools.product(W, repeat=3):
                _DISP.append((acc, k, t))
        for t in itertools.product([8, 32], repeat=5):
            _DISP.append((acc, "qmac", t))
    return _DISP


def eval_dispatch(r: CaseResult, idx):
    acc, k, t = dispatch_cases()[idx]
    ctx = common.ctx()
    accs = [ctx.get_acc(n) for n in acc.split("+")]
    a = accs[0]
    decl = "".join("  " + common.to_text(x.generate_acc_op()) + "\n" for x in accs)
    nin = len(t) - 1
    fargs = ", ".join(f"%m{i} : memref<8x{ty(t[i])}>" for i in range(nin + 1))
    bargs = ", ".join(f"%a{i} : {ty(t[i])}" for i in range(nin + 1))
    if k == "qmac":
        kop = f"%r = kernel.qmac %a0, %a1 zp_lhs : %a2 zp_rhs : %a3 : {ty(t[0])}, {ty(t[1])}, {ty(t[2])}, {ty(t[3])} -> {ty(t[4])}"
        nops = 4
    else:
        kop = f"%r = kernel.{k} %a0, %a1 : {ty(t[0])}, {ty(t[1])} -> {ty(t[2])}"
        nops = 2
    maps = ", ".join(["affine_map<(d0) -> (d0)>"] * (nin + 1))
    ins = ", ".join(f"%m{i}" for i in range(nin))
    ins_t = ", ".join(f"memref<8x{ty(t[i])}>" for i in range(nin))
    text = (
        "builtin.module {\n" + decl + "func.func @f(" + fargs + ") {\n"
        f'  linalg.generic {{indexing_maps = [{maps}], iterator_types = ["parallel"]}} ins({ins} : {ins_t}) outs(%m{nin} : memref<8x{ty(t[-1])}>) {{\n'
        f"  ^bb0({bargs}):\n    {kop}\n    linalg.yield %r : {ty(t[-1])}\n  }}\n  func.return\n}}\n}}\n"
    )
    key = f"dispatch|{acc}|{k}|{t}"
    case = dict(kind="dispatch", idx=idx)
    try:
        mod = common.compile_text(text, "dispatch-kernels")
    except common.Rejected as e:
        r.rejected = e.kind
        r.count("dispatch_rejected:" + str(e)[:60])
        return
    g = find_generic(mod)
    lib = g.library_call.data if g.library_call else None
    # declared support
    from xdsl.dialects.builtin import IntegerType

    kop_ir = g.body.block.first_op
    have = [o.type for o in kop_ir.operands] + [x.type for x in kop_ir.results]
    supported = any(sk.kernel_type is type(kop_ir) and list(sk.operand_types) == have for sk in a.supported_kernels)
    if len(accs) > 1:
        declaring = [x.name for x in accs if any(sk.kernel_type is type(kop_ir) and list(sk.operand_types) == have for sk in x.supported_kernels)]
        r.obs = (acc, k, t, lib)
        r.nontrivial = lib is not None
        r.states = 1
        r.validated = 1
        r.sample = dict(kind="dispatch", accelerators=acc, kernel=k, types=[ty(x) for x in t], library_call=lib, declared_by=declaring)
        if lib is not None and not any(lib == n or lib == n + "_stream" for n in declaring):
            r.violate(key + "|unsupported", case, f"kernel.{k} with types {[ty(x) for x in t]} in a module declaring {acc} was dispatched to {lib}; the accelerators that declare it: {declaring}")
        return
    r.obs = (acc, k, t, lib)
    r.nontrivial = lib is not None
    r.states = 1
    r.validated = 1
    r.sample = dict(kind="dispatch", accelerator=acc, kernel=k, types=[ty(x) for x in t], library_call=lib, declared=supported)
    if lib is not None and not supported:
        r.violate(key + "|unsupported", case, f"kernel.{k} with types {[ty(x) for x in t]} was dispatched to {lib} although {acc} does not declare that kernel with those operand types")
    if lib is not None and not lib.startswith(acc):
        r.violate(key + "|name", case, f"library_call {lib} does not name the accelerator {acc}")
    if lib is None and supported:
        r.count("supported_but_not_dispatched")


# ------------------------------------------------------------------------------------------------ rescale

_RESC = {}


def rescale_cases(tier):
    if tier in _RESC:
        return _RESC[tier]
    zps = [(-3, 0), (0, 5), (7, -2)]
    mults = [1, 3, (1 << 30) + 12345, 1140768826]
    shifts = [1, 8, 31, 40] if tier == "quick" else [1, 2, 8, 16, 31, 33, 40, 47]
    clamps = [(-128, 127), (0, 100), (-5, 5)]
    out = [(zi, zo, m, s, lo, hi) for (zi, zo) in zps for m in mults for s in shifts for (lo, hi) in clamps]
    _RESC[tier] = out
    return out


def eval_rescale(r: CaseResult, idx, tier):
    import importlib.util
    import os
    import compat

    zi, zo, m, s, lo, hi = rescale_cases(tier)[idx]
    spec = importlib.util.spec_from_file_location("golden", os.path.join(compat.REPO, "util/gemmx/simd_golden_model.py"))
    golden = importlib.util.module_from_spec(spec)
    spec.loader.exec_module(golden)
    text = (
        "builtin.module {\nfunc.func @f(%m0 : memref<8xi32>, %m1 : memref<8xi8>) {\n"
        '  linalg.generic {indexing_maps = [affine_map<(d0) -> (d0)>, affine_map<(d0) -> (d0)>], iterator_types = ["parallel"]} ins(%m0 : memref<8xi32>) outs(%m1 : memref<8xi8>) {\n'
        "  ^bb0(%a0 : i32, %a1 : i8):\n"
        f"    %r = kernel.rescale %a0 {{input_zp = {zi} : i32, output_zp = {zo} : i32, multiplier = array<i32: {m}>, shift = array<i32: {s}>, max_int = {hi} : i32, min_int = {lo} : i32, double_round = false}} : (i32) -> i8\n"
        "    linalg.yield %r : i8\n  }\n  func.return\n}\n}\n"
    )
    key = f"rescale|{(zi, zo, m, s, lo, hi)}"
    case = dict(kind="rescale", idx=idx, tier=tier)
    try:
        mod = common.compile_text(text, "convert-kernel-to-linalg")
    except common.Rejected as e:
        r.rejected = e.kind
        r.count("rescale_rejected:" + str(e)[:80])
        return
    g = find_generic(mod)
    f = None
    for op in mod.walk():
        if op.name == "func.func":
            f = op
    # constants are hoisted before the linalg op: evaluate them first
    it = Interp(budget=5000)
    for op in f.body.block.ops:
        if op.name == "arith.constant":
            it.exec_op(op)
    ins = [-(1 << 31), -100000, -129, -1, 0, 1, 77, 128, 5000, 123456789, (1 << 31) - 1]
    r.states = len(ins)
    r.validated = 1
    r.obs = ("rescale", zi, zo, m, s, lo, hi)
    r.sample = dict(kind="rescale", params=dict(input_zp=zi, output_zp=zo, multiplier=m, shift=s, min=lo, max=hi))
    for x in ins:
        res = it.run_block(g.body.block, [x, 0])
        got = res[2][0]
        with np.errstate(all="ignore"):
            want = int(golden.postprocessing_simd_golden_model(np.array([x], dtype=np.int32), np.int32(zi), zo, s, hi, lo, 0, m)[0])
        want8 = wrap(want, 8)
        r.transitions += 1
        if got != want8:
            r.violate(key + "|rescale", case, f"LowerRescale({dict(input_zp=zi, output_zp=zo, multiplier=m, shift=s, min=lo, max=hi)}) on input {x} gives {got}, the golden model gives {want8}")
            break


# ------------------------------------------------------------------------------------------------ tosa.rescale (+ clamp) -> kernel.rescale

_TOSA = []


def tosa_cases():
    if not _TOSA:
        for rm in ("DOUBLE_ROUND", "SINGLE_ROUND"):
            for oty in ("i8", "i32", "i16"):
                for clamp in (None, (-90, 100), (-128, 127), (0, 6)):
                    for zps in ((0, -128), (3, -5), (-7, 9)):
                        for ms in (((1085889731,), (37,)), ((7,), (9,)), ((1000, 1007, 1014, 1021), (10, 11, 12, 13))):
                            for shape in ("8", "?x4"):
                                _TOSA.append((rm, oty, clamp, zps, ms, shape))
    return _TOSA


def eval_tosa(r: CaseResult, idx):
    rm, oty, clamp, (zi, zo), (mults, shifts), shape = tosa_cases()[idx]
    nch = len(mults)
    dense = lambda vs: "dense<" + (str(vs[0]) if len(vs) == 1 else "[" + ", ".join(map(str, vs)) + "]") + ">"  # noqa: E731
    c = f"  %2 = tosa.clamp %1 {{max_val = {clamp[1]} : {oty}, min_val = {clamp[0]} : {oty}}} : (tensor<{shape}x{oty}>) -> tensor<{shape}x{oty}>\n" if clamp else ""
    text = (
        f"builtin.module {{\nfunc.func @f(%0 : tensor<{shape}xi32>) -> tensor<{shape}x{oty}> {{\n"
        f'  %izp = "tosa.const"() <{{ values = dense<{zi}> : tensor<1xi32> }}> : () -> tensor<1xi32>\n'
        f'  %ozp = "tosa.const"() <{{ values = dense<{zo}> : tensor<1xi32> }}> : () -> tensor<1xi32>\n'
        f'  %mul = "tosa.const"() <{{ values = {dense(mults)} : tensor<{nch}xi32> }}> : () -> tensor<{nch}xi32>\n'
        f'  %sh = "tosa.const"() <{{ values = {dense(shifts)} : tensor<{nch}xi32> }}> : () -> tensor<{nch}xi32>\n'
        f"  %1 = tosa.rescale %0, %mul, %sh, %izp, %ozp {{rounding_mode = {rm}, per_channel = {'true' if nch > 1 else 'false'}, scale32 = true, input_unsigned = false, output_unsigned = false}} : "
        f"(tensor<{shape}xi32>, tensor<{nch}xi32>, tensor<{nch}xi32>, tensor<1xi32>, tensor<1xi32>) -> tensor<{shape}x{oty}>\n"
        + c + f"  func.return {'%2' if clamp else '%1'} : tensor<{shape}x{oty}>\n}}\n}}\n"
    )
    key = f"tosa|{tosa_cases()[idx]!r}"
    case = dict(kind="tosa", idx=idx, program=text)
    try:
        mod = common.compile_text(text, "convert-tosa-to-kernel")
    except common.Rejected as e:
        r.rejected = e.kind
        r.count("tosa_rejected:" + str(e)[:70])
        return
    ks = [op for op in mod.walk() if op.name == "kernel.rescale"]
    left = [op for op in mod.walk() if op.name in ("tosa.rescale", "tosa.clamp")]
    r.obs = ("tosa", tosa_cases()[idx], len(ks))
    r.states = 1
    r.validated = 1
    r.nontrivial = bool(ks)
    r.sample = dict(kind="tosa", program=text, converted=bool(ks))
    if not ks:
        if common.to_text(mod) != common.to_text(common.parse(text)):
            r.violate(key + "|changed", case, "no kernel.rescale was produced but the program changed")
        return
    if len(ks) != 1 or left:
        r.violate(key + "|shape", case, f"{len(ks)} kernel.rescale ops, {len(left)} tosa rescale/clamp ops left")
        return
    k = ks[0]
    w = int(oty[1:])
    want = dict(
        input_zp=zi, output_zp=zo, multiplier=tuple(mults), shift=tuple(shifts), double_round=rm == "DOUBLE_ROUND",
        min_int=clamp[0] if clamp else -(1 << (w - 1)), max_int=clamp[1] if clamp else (1 << (w - 1)) - 1,
    )
    got = dict(
        input_zp=k.input_zp.value.data, output_zp=k.output_zp.value.data, multiplier=tuple(k.multiplier.get_values()), shift=tuple(k.shift.get_values()),
        double_round=bool(k.double_round.value.data), min_int=k.min_int.value.data, max_int=k.max_int.value.data,
    )
    if str(k.results[0].type) != oty or str(k.operands[0].type) != "i32":
        r.violate(key + "|types", case, f"kernel.rescale has type ({k.operands[0].type}) -> {k.results[0].type}, the tosa ops are (i32) -> {oty}")
    for f_ in want:
        if want[f_] != got[f_]:
            r.violate(key + "|param", case, f"tosa.rescale{' + clamp' if clamp else ''} with {f_} = {want[f_]} became kernel.rescale with {f_} = {got[f_]}")
            return


# ------------------------------------------------------------------------------------------------ hand-given kernel bodies (expansion only)

_KMIX = []


def kmix_cases():
    """linalg bodies that already contain ONE named kernel op, with every operand wiring, optionally preceded / followed by plain arithmetic:
    (kernel, wiring of (lhs, rhs) over the two inputs, leading op?, trailing op)"""
    if not _KMIX:
        for kern in ("add", "mul", "mac", "qmac"):
            for wiring in ((0, 1), (1, 0), (0, 0), (1, 1)):
                for lead in (0, 1):
                    for trail in ("none", "muli_out", "addi_a0", "subi_rev"):
                        _KMIX.append((kern, wiring, lead, trail))
    return _KMIX


def kmix_text(kern, wiring, lead, trail):
    q = kern == "qmac"
    tin = "i8" if q else "i32"
    atys = [tin, tin] + (["i32", "i32"] if q else []) + ["i32"]
    nin = len(atys) - 1
    lines = []
    if lead:
        lines.append(f"    %p = arith.addi %a{nin}, %a{nin} : i32")
    l, r_ = f"%a{wiring[0]}", f"%a{wiring[1]}"
    if q:
        lines.append(f"    %k = kernel.qmac {l}, {r_} zp_lhs : %a2 zp_rhs : %a3 : i8, i8, i32, i32 -> i32")
    else:
        lines.append(f"    %k = kernel.{kern} {l}, {r_} : i32, i32 -> i32")
    res = "%k"
    if trail == "muli_out":
        lines.append(f"    %t = arith.muli %k, %a{nin} : i32")
        res = "%t"
    elif trail == "addi_a0":
        lines.append(f"    %t = arith.addi %k, %a{nin} : i32\n    %t2 = arith.addi %t, %t : i32")
        res = "%t2"
    elif trail == "subi_rev":
        lines.append(f"    %t = arith.subi %a{nin}, %k : i32")
        res = "%t"
    lines.append(f"    linalg.yield {res} : i32")
    maps = ", ".join(["affine_map<(d0) -> (d0)>"] * (nin + 1))
    ins = ", ".join(f"%m{i}" for i in range(nin))
    ins_t = ", ".join(f"memref<8x{t}>" for t in atys[:nin])
    fargs = ", ".join(f"%m{i} : memref<8x{t}>" for i, t in enumerate(atys))
    bargs = ", ".join(f"%a{i} : {t}" for i, t in enumerate(atys))
    return (
        "builtin.module {\nfunc.func @f(" + fargs + ") {\n"
        f'  linalg.generic {{indexing_maps = [{maps}], iterator_types = ["parallel"]}} ins({ins} : {ins_t}) outs(%m{nin} : memref<8xi32>) {{\n'
        f"  ^bb0({bargs}):\n" + "\n".join(lines) + "\n  }\n  func.return\n}\n}\n"
    ), atys


def run_mixed(block, args):
    """IR machine with the documented meaning of the named kernel ops (kernel.py docstrings): the accumulator of mac / qmac is the output block argument"""

    def vals(it, op):
        return [it.get(o) for o in op.operands]

    def acc(it, op):
        return it.get(op.parent_block().args[-1])

    h = {
        "kernel.add": lambda it, op: [wrap(sum(vals(it, op)), 32)],
        "kernel.mul": lambda it, op: [wrap(vals(it, op)[0] * vals(it, op)[1], 32)],
        "kernel.mac": lambda it, op: [wrap(acc(it, op) + vals(it, op)[0] * vals(it, op)[1], 32)],
        "kernel.qmac": lambda it, op: [wrap(acc(it, op) + (vals(it, op)[0] - vals(it, op)[2]) * (vals(it, op)[1] - vals(it, op)[3]), 32)],
    }
    it = Interp(handlers=h, budget=1000)
    return it.run_block(block, list(args))[2][0]


def eval_kmix(r: CaseResult, idx):
    kern, wiring, lead, trail = kmix_cases()[idx]
    text, atys = kmix_text(kern, wiring, lead, trail)
    key = f"kmix|{kern}|{wiring}|{lead}|{trail}"
    case = dict(kind="kmix", idx=idx, body=text)
    base = common.parse(text)
    base.verify()
    try:
        mod = common.compile_text(text, "convert-kernel-to-linalg")
    except common.Rejected as e:
        r.rejected = e.kind
        return
    g0, g1 = find_generic(base), find_generic(mod)
    expanded = not any(o.name.startswith("kernel.") for o in g1.body.block.ops)
    r.obs = (kern, wiring, lead, trail, expanded)
    r.nontrivial = expanded
    r.states = 1
    r.validated = 1
    r.count("kmix_expanded", int(expanded))
    r.sample = dict(body=text, expanded=expanded)
    doms = [[-128, -1, 2, 127] if t == "i8" else [-(1 << 31), -3, 0, 5, (1 << 31) - 1] for t in atys]
    if len(atys) > 3:
        doms = [d[:4] if len(d) > 4 else d for d in doms]
        doms = [d if t == "i8" else [-(1 << 31), -3, 5, (1 << 31) - 1] for d, t in zip(doms, atys)]
    for args in itertools.product(*doms):
        want = run_mixed(g0.body.block, args)
        got = run_mixed(g1.body.block, args)
        r.transitions += 1
        if want != got:
            r.violate(key + "|expansion", case, f"convert-kernel-to-linalg changes the function of a body with kernel.{kern}: inputs {args}: before {want}, after {got}; body:\n{text}")
            return


def evaluate(case) -> CaseResult:
    kind, p = case
    r = CaseResult()
    if kind == "body":
        eval_body_case(r, *p)
    elif kind == "kmix":
        eval_kmix(r, *p)
    elif kind == "tosa":
        eval_tosa(r, *p)
    elif kind == "dispatch":
        eval_dispatch(r, *p)
    else:
        eval_rescale(r, *p)
    r.count("cases_" + kind)
    return r


def replay(case):
    r = CaseResult()
    if case["kind"] == "body":
        eval_body_case(r, case["idx"], case["tier"])
    elif case["kind"] == "dispatch":
        eval_dispatch(r, case["idx"])
    elif case["kind"] == "kmix":
        eval_kmix(r, case["idx"])
    elif case["kind"] == "tosa":
        eval_tosa(r, case["idx"])
    else:
        eval_rescale(r, case["idx"], case["tier"])
    return r.violations
