"""C17 — loop restructuring preserves the executed operation sequence.

Shape A. Part A: all loop nests up to depth 3 with constant (and run-time) bounds, every placement of tagged side-effecting
ops / pure ops in every body position -> real pipeline-canonicalize-for; the sequence of (tag, evaluated operands) events
must be identical. Part B: loops with allocations, dimension queries and subviews (depending or not on loop variables) ->
real reuse-memref-allocs; identical event sequence where a memref operand is observed as its run-time shape.
"""
from __future__ import annotations

import itertools

from mc import common
from mc.driver import CaseResult
from mc.space import Concat, Product, Tagged, power
from machines.ir import Interp, InterpError, StepBudget, UseBeforeDef, find_func

PID = "C17"
RULE = (
    "A: loop nests of depth 1..3; per loop (lb,ub,step) from lb{0,1} x ub{0,1,2,3,4,5,7} x step{1,2,3} (depth 3: reduced menu), each bound constant or a "
    "run-time argument; per body position before/after the inner loop: nothing / tagged side-effecting op using all visible induction variables / pure op "
    "feeding a later tagged op. B: allocation/dim/subview placements (incl. rank-3 subviews under every static/dynamic size mask x queried dimension) in single and nested loops x run-time sizes, and sizes read from a memory cell that the loop body does or does not update. distinct = distinct (program, event "
    "trace); non-trivial = the pass changed the IR"
)
ASSUMPTIONS = [
    "scf.for semantics lb, lb+step, ... < ub (machines/ir.py); a tagged op's observable effect is (tag, operand values); memref operands are observed as run-time shapes",
    "allocation identity is not observable (a hoisted allocation is the same buffer across iterations by design)",
]
BOUNDS = {"quick": dict(depth3="reduced"), "thorough": dict(depth3="wider")}
CASE_TIMEOUT = 30

LB, UB, ST = [0, 1], [0, 1, 2, 3, 4, 5, 7], [1, 2, 3]
TRIPLES = [(l, u, s) for l in LB for u in UB for s in ST]
TRIPLES3 = [(0, u, s) for u in (1, 2, 3, 5) for s in (1, 2)]
TRIPLES3W = [(l, u, s) for l in (0, 1) for u in (1, 2, 3, 5) for s in (1, 2, 3)]
PRE = ["none", "eff", "pure"]
POST = ["none", "eff"]


def space(tier):
    parts = []
    # depth 1: (triple, dyn)
    parts.append(Tagged("nest", Product([1], power(TRIPLES, 1), power([0, 1], 1), [()])))
    # depth 2: shapes = (pre, post) of the outer body
    parts.append(Tagged("nest", Product([2], power(TRIPLES, 2), [(0, 0), (0, 1), (1, 0)], list(itertools.product(PRE, POST)))))
    t3 = TRIPLES3W if tier == "thorough" else TRIPLES3
    shapes3 = list(itertools.product(PRE, POST, PRE, POST)) if tier == "thorough" else [s for s in itertools.product(PRE, POST, PRE, POST) if s.count("none") >= 2]
    parts.append(Tagged("nest", Product([3], power(t3, 3), [(0, 0, 0), (0, 0, 1)], shapes3)))
    parts.append(Tagged("alloc", Product(range(len(alloc_programs())), [(4, 6), (1, 8), (5, 5)])))
    return Concat(*parts)


# ------------------------------------------------------------------------------------------------ part A


def emit_nest(depth, triples, dyn, shape):
    """returns (text, args) ; dyn[k]=1 -> ub of loop k is a function argument"""
    lines, args, argv = [], [], []
    tag = [0]

    def eff(ind, ivs, extra=None):
        tag[0] += 1
        ops = ivs + ([extra] if extra else [])
        tys = ", ".join(["index"] * len(ops))
        lines.append(f'{ind}"test.op"({", ".join(ops)}) {{verif.id = {tag[0]} : i32}} : ({tys}) -> ()')

    def loop(k, ind, ivs):
        lb, ub, st = triples[k]
        c = [f"%lb{k}", f"%ub{k}", f"%st{k}"]
        lines.append(f"{ind}{c[0]} = arith.constant {lb} : index")
        if dyn[k]:
            args.append(f"%ubarg{k} : index")
            argv.append(ub)
            c[1] = f"%ubarg{k}"
        else:
            lines.append(f"{ind}{c[1]} = arith.constant {ub} : index")
        lines.append(f"{ind}{c[2]} = arith.constant {st} : index")
        lines.append(f"{ind}scf.for %i{k} = {c[0]} to {c[1]} step {c[2]} {{")
        ivs2 = ivs + [f"%i{k}"]
        ind2 = ind + "  "
        if k == depth - 1:
            eff(ind2, ivs2)
        else:
            pre, post = shape[2 * k], shape[2 * k + 1]
            pv = None
            if pre == "eff":
                eff(ind2, ivs2)
            elif pre == "pure":
                pv = f"%p{k}"
                lines.append(f"{ind2}{pv} = arith.addi %i{k}, %i{k} : index")
            loop(k + 1, ind2, ivs2)
            if post == "eff":
                eff(ind2, ivs2, pv)
            elif pv:
                eff(ind2, ivs2, pv)
        lines.append(f"{ind}}}")

    loop(0, "  ", [])
    text = "builtin.module {\nfunc.func @f(" + ", ".join(args) + ") {\n" + "\n".join(lines) + "\n  func.return\n}\n}\n"
    return text, argv


def run_events(mod, args, budget=60000):
    ev = []

    def h_test(it, op):
        vals = []
        for o in op.operands:
            v = it.get(o)
            vals.append(v)
        ident = op.attributes.get("verif.id")
        ev.append((ident.value.data if ident is not None else None, tuple(_obs(v) for v in vals)))
        return [0 for _ in op.results]

    from machines.memview import handlers as mem_handlers

    cells = {}

    def _cell(it, op, ref, idx):
        v = it.get(ref)
        return (v.buf, v.offset + sum(it.get(i) * s_ for i, s_ in zip(idx, v.strides)))

    def h_load(it, op):
        return [cells.get(_cell(it, op, op.operands[0], op.operands[1:]), ("undefined-memory",))]

    def h_store(it, op):
        cells[_cell(it, op, op.operands[1], op.operands[2:])] = it.get(op.operands[0])
        return []

    h = {"test.op": h_test, "memref.load": h_load, "memref.store": h_store}
    h.update(mem_handlers())
    it = Interp(handlers=h, budget=budget)
    try:
        it.run_func(find_func(mod, "f"), args)
    except UseBeforeDef as e:
        ev.append(("use-before-def", str(e)[:120]))
    except StepBudget:
        ev.append(("step-budget",))
    return ev, it.steps


def _obs(v):
    from machines.memview import View

    if isinstance(v, View):
        return ("memref", tuple(v.sizes))
    return v


def compare(r, text, args, pipeline, key, case):
    try:
        base = common.parse(text)
        base.verify()
    except Exception as e:
        raise RuntimeError(f"generator bug: {e}\n{text}")
    out = base.clone()
    try:
        common.run_pipeline(out, pipeline)
    except Exception as e:
        r.rejected = "pass:" + type(e).__name__
        r.count("pass_exc:" + type(e).__name__ + ":" + str(e)[:60])
        return
    t_in, t_out = common.to_text(base), common.to_text(out)
    r.nontrivial = t_in != t_out
    r.count("programs_changed", int(t_in != t_out))
    e0, s0 = run_events(base, args)
    e1, s1 = run_events(out, args)
    r.transitions = s0 + s1
    r.states = len(e0)
    r.validated = 1
    r.obs = (key, tuple(e0))
    r.sample = dict(program=text, args=args, events=len(e0), changed=t_in != t_out)
    if e0 != e1:
        i = next((k for k, (a, b) in enumerate(zip(e0, e1)) if a != b), min(len(e0), len(e1)))
        cls = "fewer-events" if len(e1) < len(e0) else ("more-events" if len(e1) > len(e0) else "different-values")
        r.violate(key + "|" + cls, dict(case, input_ir=t_in, output_ir=t_out), f"{pipeline}: executed operations differ at event {i}: original {e0[i] if i < len(e0) else '<end>'} ({len(e0)} events) vs transformed {e1[i] if i < len(e1) else '<end>'} ({len(e1)} events); {case}")


# ------------------------------------------------------------------------------------------------ part B

_ALLOC = []


def alloc_programs():
    """hand-enumerated placement family: (name, text). %m : memref<?x?xi32> argument, sizes given at run time."""
    if _ALLOC:
        return _ALLOC
    hdr = "builtin.module {\nfunc.func @f(%m : memref<?x?xi32>, %n : index) {\n  %c0 = arith.constant 0 : index\n  %c1 = arith.constant 1 : index\n  %c2 = arith.constant 2 : index\n  %c3 = arith.constant 3 : index\n"
    ftr = "  func.return\n}\n}\n"

    def prog(body):
        return hdr + body + ftr

    use = '"test.op"({ops}) {{verif.id = {k} : i32}} : ({tys}) -> ()'
    variants = []
    # alloc kinds inside a loop body
    allocs = {
        "static": ("%a = memref.alloc() : memref<4x4xi32>", "memref<4x4xi32>"),
        "dyn_outer_dim": ("%d = memref.dim %m, %c0 : memref<?x?xi32>\n    %a = memref.alloc(%d) : memref<?x4xi32>", "memref<?x4xi32>"),
        "dyn_arg": ("%a = memref.alloc(%n) : memref<?x4xi32>", "memref<?x4xi32>"),
        "dyn_iv": ("%a = memref.alloc(%i) : memref<?x4xi32>", "memref<?x4xi32>"),
        "dyn_pure_iv": ("%q = arith.addi %i, %c1 : index\n    %a = memref.alloc(%q) : memref<?x4xi32>", "memref<?x4xi32>"),
        "dyn_pure_outer": ("%q = arith.addi %n, %c1 : index\n    %a = memref.alloc(%q) : memref<?x4xi32>", "memref<?x4xi32>"),
        "subview_static_dim": (
            "%sv = memref.subview %m[%i, 0] [2, 3] [1, 1] : memref<?x?xi32> to memref<2x3xi32, strided<[?, 1], offset: ?>>\n"
            "    %d = memref.dim %sv, %c0 : memref<2x3xi32, strided<[?, 1], offset: ?>>\n    %a = memref.alloc(%d) : memref<?x4xi32>",
            "memref<?x4xi32>",
        ),
        "subview_dyn_outer": (
            "%sv = memref.subview %m[%i, 0] [%n, 3] [1, 1] : memref<?x?xi32> to memref<?x3xi32, strided<[?, 1], offset: ?>>\n"
            "    %d = memref.dim %sv, %c0 : memref<?x3xi32, strided<[?, 1], offset: ?>>\n    %a = memref.alloc(%d) : memref<?x4xi32>",
            "memref<?x4xi32>",
        ),
        "subview_dyn_iv": (
            "%sv = memref.subview %m[0, 0] [%i, 3] [1, 1] : memref<?x?xi32> to memref<?x3xi32, strided<[?, 1], offset: ?>>\n"
            "    %d = memref.dim %sv, %c0 : memref<?x3xi32, strided<[?, 1], offset: ?>>\n    %a = memref.alloc(%d) : memref<?x4xi32>",
            "memref<?x4xi32>",
        ),
        "subview_of_dim": (
            "%dm = memref.dim %m, %c1 : memref<?x?xi32>\n"
            "    %sv = memref.subview %m[%i, 0] [1, %dm] [1, 1] : memref<?x?xi32> to memref<1x?xi32, strided<[?, 1], offset: ?>>\n"
            "    %d = memref.dim %sv, %c1 : memref<1x?xi32, strided<[?, 1], offset: ?>>\n    %a = memref.alloc(%d) : memref<?x4xi32>",
            "memref<?x4xi32>",
        ),
        "affine_min": (
            "%mn = affine.min affine_map<(d0) -> (2, -d0 + 3)>(%i)\n"
            "    %sv = memref.subview %m[%i, 0] [%mn, 3] [1, 1] : memref<?x?xi32> to memref<?x3xi32, strided<[?, 1], offset: ?>>\n"
            "    %d = memref.dim %sv, %c0 : memref<?x3xi32, strided<[?, 1], offset: ?>>\n    %a = memref.alloc(%d) : memref<?x4xi32>\n"
            '    "test.op"(%sv) {verif.id = 9 : i32} : (memref<?x3xi32, strided<[?, 1], offset: ?>>) -> ()',
            "memref<?x4xi32>",
        ),
        "affine_min_dim_effect": (
            "%mn = affine.min affine_map<(d0) -> (2, -d0 + 3)>(%i)\n"
            "    %sv = memref.subview %m[%i, 0] [%mn, 3] [1, 1] : memref<?x?xi32> to memref<?x3xi32, strided<[?, 1], offset: ?>>\n"
            "    %d = memref.dim %sv, %c0 : memref<?x3xi32, strided<[?, 1], offset: ?>>\n    %a = memref.alloc(%d) : memref<?x4xi32>\n"
            '    "test.op"(%d) {verif.id = 8 : i32} : (index) -> ()',
            "memref<?x4xi32>",
        ),
        "dim_used_by_effect": (
            "%d = memref.dim %m, %c1 : memref<?x?xi32>\n    %a = memref.alloc(%d) : memref<?x4xi32>\n"
            '    "test.op"(%d) {verif.id = 8 : i32} : (index) -> ()',
            "memref<?x4xi32>",
        ),
    }
    # a size that is itself a dim of the argument: every (inner dim index, subview dimension) pair, with / without another user of the inner dim
    for mi in (0, 1):
        for k in (0, 1):
            for extra in (0, 1):
                svt = "memref<?x3xi32, strided<[?, 1], offset: ?>>" if k == 0 else "memref<1x?xi32, strided<[?, 1], offset: ?>>"
                szs = "[%dm, 3]" if k == 0 else "[1, %dm]"
                allocs[f"subview_of_dim_{mi}{k}{extra}"] = (
                    f"%dm = memref.dim %m, %c{mi} : memref<?x?xi32>\n"
                    f"    %sv = memref.subview %m[%i, 0] {szs} [1, 1] : memref<?x?xi32> to {svt}\n"
                    f"    %d = memref.dim %sv, %c{k} : {svt}\n    %a = memref.alloc(%d) : memref<?x4xi32>"
                    + ('\n    "test.op"(%dm) {verif.id = 8 : i32} : (index) -> ()' if extra else ""),
                    "memref<?x4xi32>",
                )
    # rank-3 subviews: every static / dynamic mask over the three sizes (dynamic sizes: the two dims of %m and the constant 3 passed as an operand) x every queried dynamic
    # dimension: the dim must be the size operand of THAT dimension (operands are indexed by the number of dynamic sizes before it)
    for mask in itertools.product((0, 1), repeat=3):
        for k in range(3):
            if not mask[k]:
                continue
            ops3 = ("%dm0", "%dm1", "%c3")
            szs = "[" + ", ".join(ops3[j] if mask[j] else "2" for j in range(3)) + "]"
            svt = "memref<" + "x".join("?" if mask[j] else "2" for j in range(3)) + "xi32, strided<[?, ?, 1], offset: ?>>"
            allocs[f"subview3_{''.join(map(str, mask))}_{k}"] = (
                "%dm0 = memref.dim %m, %c0 : memref<?x?xi32>\n    %dm1 = memref.dim %m, %c1 : memref<?x?xi32>\n"
                "    %m3 = memref.alloc() : memref<9x9x9xi32>\n"
                f"    %sv = memref.subview %m3[0, 0, 0] {szs} [1, 1, 1] : memref<9x9x9xi32> to {svt}\n"
                f"    %d = memref.dim %sv, %c{k} : {svt}\n    %a = memref.alloc(%d) : memref<?x4xi32>",
                "memref<?x4xi32>",
            )
    loops = {
        "single": ("  scf.for %i = %c0 to %c3 step %c1 {\n    {A}\n    {U}\n  }\n", 1),
        "single_dynub": ("  scf.for %i = %c0 to %n step %c1 {\n    {A}\n    {U}\n  }\n", 1),
        "nested_inner": ("  scf.for %j = %c0 to %c2 step %c1 {\n  scf.for %i = %c1 to %c3 step %c1 {\n    {A}\n    {U}\n  }\n  }\n", 2),
        "nested_outer_iv": ("  scf.for %i = %c0 to %c3 step %c1 {\n  scf.for %j = %c0 to %c2 step %c1 {\n    {A}\n    {U}\n  }\n  }\n", 2),
        "in_if": ("  scf.for %i = %c0 to %c3 step %c1 {\n    %cnd = arith.cmpi eq, %i, %c1 : index\n    scf.if %cnd {\n    {A}\n    {U}\n    }\n  }\n", 1),
        "two_allocs": ("  scf.for %i = %c0 to %c3 step %c1 {\n    {A}\n    {U}\n    %b = memref.alloc() : memref<2xi32>\n" + '    "test.op"(%b, %i) {verif.id = 5 : i32} : (memref<2xi32>, index) -> ()\n  }\n', 1),
    }
    for an, (atext, aty) in allocs.items():
        for ln, (ltext, _) in loops.items():
            u = use.format(ops="%a, %i", k=1, tys=f"{aty}, index")
            body = ltext.replace("{A}", atext).replace("{U}", u)
            variants.append((f"{an}/{ln}", prog(body)))
    # sizes kept in memory: a cell allocated before the loop, read (and, in most variants, updated) inside the loop body; a read is only loop invariant
    # if nothing in the loop writes the cell
    ct = "memref<1xindex>"
    pre = f"  %cell = memref.alloc() : {ct}\n  memref.store %c1, %cell[%c0] : {ct}\n"
    ld = f"%cur = memref.load %cell[%c0] : {ct}"
    mk = '%a = memref.alloc(%cur) : memref<?x4xi32>\n    "test.op"(%a, %i, %cur) {verif.id = 1 : i32} : (memref<?x4xi32>, index, index) -> ()'
    upd = f"%nx = arith.addi %cur, %cur : index\n    memref.store %nx, %cell[%c0] : {ct}"
    updi = f"memref.store %i, %cell[%c0] : {ct}"
    bodies = {
        "load_use_update": f"{ld}\n    {mk}\n    {upd}",
        "update_first": f"{updi}\n    {ld}\n    {mk}",
        "load_only": f"{ld}\n    {mk}",
        "update_in_if": f"{ld}\n    {mk}\n    %cnd = arith.cmpi eq, %i, %c1 : index\n    scf.if %cnd {{\n    {upd}\n    }}",
    }
    cell_loops = {
        "single": "  scf.for %i = %c0 to %c3 step %c1 {\n    {B}\n  }\n",
        "single_dynub": "  scf.for %i = %c0 to %n step %c1 {\n    {B}\n  }\n",
        "nested_inner": "  scf.for %j = %c0 to %c2 step %c1 {\n  scf.for %i = %c1 to %c3 step %c1 {\n    {B}\n  }\n  }\n",
        "nested_outer": "  scf.for %i = %c0 to %c3 step %c1 {\n  scf.for %j = %c0 to %c2 step %c1 {\n    {B}\n  }\n  }\n",
    }
    for bn, btext in bodies.items():
        for ln, ltext in cell_loops.items():
            variants.append((f"cell_{bn}/{ln}", prog(pre + ltext.replace("{B}", btext))))
    _ALLOC.extend(variants)
    return _ALLOC


def eval_alloc(r, idx, sizes):
    from machines.memview import View

    name, text = alloc_programs()[idx]
    m = View.fresh("m", list(sizes), 4)
    compare(r, text, [m, 2], "reuse-memref-allocs", f"alloc|{name}|{sizes}", dict(kind="alloc", idx=idx, name=name, sizes=sizes))


def evaluate(case) -> CaseResult:
    kind, p = case
    r = CaseResult()
    if kind == "nest":
        depth, triples, dyn, shape = p
        text, args = emit_nest(depth, triples, dyn, shape)
        compare(r, text, args, "pipeline-canonicalize-for", f"nest|{p!r}", dict(kind="nest", p=p))
    else:
        eval_alloc(r, *p)
    r.count("cases_" + kind)
    return r


def _t(x):
    return tuple(_t(i) for i in x) if isinstance(x, list) else x


def replay(case):
    if case["kind"] == "nest":
        return evaluate(("nest", _t(case["p"]))).violations
    return evaluate(("alloc", (case["idx"], _t(case["sizes"])))).violations
