"""C14 — dispatch runs each operation on exactly the cores it belongs to.

Shape A: every program with <= N tagged ops of kinds {DM copy, compute (linalg.generic / dart streaming region), other (test.op),
barrier} at any depth of scf.for / scf.if nests -> real dispatch-regions{nb_cores} (then the upstream function-constant-pinning
the property names). For every core id the executed tagged-op trace must equal the original trace filtered by the rule
{DM -> core n-1, compute -> core 0, everything else -> all cores}; the pinned specialisation must give the same trace.
"""
from __future__ import annotations

import itertools

from mc import common
from mc.driver import CaseResult
from gen import struct as ST
from machines.ir import Interp, InterpError, StepBudget, UseBeforeDef, find_func

PID = "C14"
RULE = (
    "all programs over leaves {D: memref.copy, C: linalg.generic, S: dart.operation (compute), O: test.op using the induction variables, B: snax.cluster_sync_op} "
    "with <= N nodes nested in scf.for / scf.if (with and without else), depth <= 2, adjacent and separated; x nb_cores in {2,3,4} x every core id x trip "
    "counts {0,1,2} x branch outcomes; snax_xdma streaming regions (add / mul, rescale i32->i8 / i8->i32 = extension kernels, rescale i32->i32 / i8->i8 = not) in "
    "3-node programs; two-block functions; private functions and helpers. distinct = distinct (program, nb_cores, per-core traces); non-trivial = program has a dispatchable op"
)
ASSUMPTIONS = [
    "core model: every core executes the whole function; snax_cluster_core_idx() returns the core id; DM core = nb_cores-1, compute core = 0 (the rule in dispatch_regions.py)",
    "function-constant-pinning is the upstream xDSL pass; internal func.call is executed by the IR machine",
]
BOUNDS = {"quick": dict(nodes=5, depth=2, cores=[2, 3], trips=[0, 1, 2]), "thorough": dict(nodes=6, depth=3, cores=[2, 3, 4], trips=[0, 1, 2])}
CASE_TIMEOUT = 60

BUFS = ["%a : memref<8xi32>", "%b : memref<8xi32>", "%c : memref<8xi32>", "%d8 : memref<8xi8>"]
GEN = ('linalg.generic {{indexing_maps = [affine_map<(d0) -> (d0)>, affine_map<(d0) -> (d0)>], iterator_types = ["parallel"]}} '
       "ins({i} : memref<8xi32>) outs({o} : memref<8xi32>) attrs = {{verif.id = {t} : i32}} {{\n^bb0(%x{t} : i32, %y{t} : i32):\n  linalg.yield %x{t} : i32\n}}")
STREAM = ('"dart.operation"({i}, {o}) <{{patterns = [affine_map<(d0) -> (d0)>, affine_map<(d0) -> (d0)>], accelerator = "snax_alu", operandSegmentSizes = array<i32: 1, 1>}}> ({{\n'
          "^bb0(%sx{t} : !dart.stream<i32>, %sy{t} : !dart.stream<i32>):\n  dart.yield %sx{t} : !dart.stream<i32>\n}}) {{verif.id = {t} : i32}} : (memref<8xi32>, memref<8xi32>) -> ()")


XDMA = ('"dart.operation"({i}, {i}, {o}) <{{patterns = [affine_map<(d0) -> (d0)>, affine_map<(d0) -> (d0)>, affine_map<(d0) -> (d0)>], accelerator = "snax_xdma", operandSegmentSizes = array<i32: 2, 1>}}> ({{\n'
        "^bb0(%xa{t} : !dart.stream<i32>, %xb{t} : !dart.stream<i32>, %xc{t} : !dart.stream<i32>):\n"
        '  %xg{t} = "dart.generic"(%xa{t}, %xb{t}) <{{library_call = "snax_xdma"}}> ({{\n  ^bb1(%xe{t} : i32, %xf{t} : i32, %xo{t} : i32):\n    {kern}\n    dart.yield %xk{t} : i32\n'
        "  }}) : (!dart.stream<i32>, !dart.stream<i32>) -> !dart.stream<i32>\n  dart.yield %xg{t} : !dart.stream<i32>\n"
        "}}) {{verif.id = {t} : i32}} : (memref<8xi32>, memref<8xi32>, memref<8xi32>) -> ()")


XDMA1 = ('"dart.operation"({i}, {o}) <{{patterns = [affine_map<(d0) -> (d0)>, affine_map<(d0) -> (d0)>], accelerator = "snax_xdma", operandSegmentSizes = array<i32: 1, 1>}}> ({{\n'
         "^bb0(%za{t} : !dart.stream<{ti}>, %zb{t} : !dart.stream<{to}>):\n"
         '  %zg{t} = "dart.generic"(%za{t}) <{{library_call = "snax_xdma"}}> ({{\n  ^bb1(%ze{t} : {ti}, %zo{t} : {to}):\n'
         "    %zk{t} = kernel.rescale %ze{t} {{input_zp = 0 : i32, output_zp = 0 : i32, multiplier = array<i32: 1>, shift = array<i32: 9>, max_int = 127 : i32, min_int = -128 : i32, double_round = false}} : ({ti}) -> {to}\n"
         "    dart.yield %zk{t} : {to}\n  }}) : (!dart.stream<{ti}>) -> !dart.stream<{to}>\n  dart.yield %zg{t} : !dart.stream<{to}>\n"
         "}}) {{verif.id = {t} : i32}} : (memref<8x{ti}>, memref<8x{to}>) -> ()")


def leaf_emit(leaf, tag, ivs):
    k = leaf[0]
    if k in ("V", "U"):
        # snax_xdma rescale with the operand type of an extension kernel but another result type (i32 -> i32, i8 -> i8): no extension provides it
        if k == "V":
            return XDMA1.format(i="%a", o="%b", t=tag, ti="i32", to="i32").split("\n")
        return XDMA1.format(i="%d8", o="%d8", t=tag, ti="i8", to="i8").split("\n")
    if k in ("Z", "W"):
        # snax_xdma rescale down (i32 -> i8) / up (i8 -> i32): both are extension kernels (data-mover core)
        if k == "Z":
            return XDMA1.format(i="%a", o="%d8", t=tag, ti="i32", to="i8").split("\n")
        return XDMA1.format(i="%d8", o="%a", t=tag, ti="i8", to="i32").split("\n")
    if k in ("X", "Y"):
        # snax_xdma streaming op: X = a kernel one of the DMA extensions provides (data-mover core), Y = another kernel (no extension: not dispatched)
        kern = f"%xk{tag} = kernel.add %xe{tag}, %xf{tag} : i32, i32 -> i32" if k == "X" else f"%xk{tag} = kernel.mul %xe{tag}, %xf{tag} : i32, i32 -> i32"
        return XDMA.format(i="%" + leaf[1], o="%" + leaf[2], t=tag, kern=kern).split("\n")
    if k == "D":
        return [f'"memref.copy"(%{leaf[1]}, %{leaf[2]}) {{verif.id = {tag} : i32}} : (memref<8xi32>, memref<8xi32>) -> ()']
    if k == "C":
        return GEN.format(i="%" + leaf[1], o="%" + leaf[2], t=tag).split("\n")
    if k == "S":
        return STREAM.format(i="%" + leaf[1], o="%" + leaf[2], t=tag).split("\n")
    if k == "O":
        tys = ", ".join(["index"] * len(ivs))
        return [f'"test.op"({", ".join(ivs)}) {{verif.id = {tag} : i32}} : ({tys}) -> ()']
    if k == "B":
        return ['"snax.cluster_sync_op"() : () -> ()']
    raise ValueError(k)


def space(tier):
    b = BOUNDS[tier]
    leaves = [("D", "a", "b"), ("C", "b", "c"), ("O",), ("B",)]
    g = ST.Grammar(leaves, controls=("FOR", "IF", "IFE"), max_depth=b["depth"])
    progs = [p for p in g.programs(b["nodes"]) if ST.count(p, lambda s: s[0] in ("D", "C")) >= 1]
    # a slice with the dart streaming-region form of a compute op
    g2 = ST.Grammar([("D", "a", "b"), ("S", "b", "c"), ("O",)], controls=("FOR", "IF"), max_depth=2)
    progs += [p for p in g2.programs(3) if ST.count(p, lambda s: s[0] == "S") >= 1]
    # a slice with snax_xdma streaming ops
    g4 = ST.Grammar([("X", "a", "b"), ("Y", "a", "b"), ("Z",), ("W",), ("C", "b", "c"), ("O",)], controls=("FOR", "IF"), max_depth=2)
    progs += [p for p in g4.programs(3) if ST.count(p, lambda s: s[0] in ("X", "Y", "Z", "W")) >= 1]
    g5 = ST.Grammar([("V",), ("U",), ("Z",), ("C", "b", "c")], controls=("FOR", "IF"), max_depth=2)
    progs += [p for p in g5.programs(3) if ST.count(p, lambda s: s[0] in ("V", "U")) >= 1]
    cases = [(p, n, None) for p in progs for n in b["cores"]]
    # two-block functions (cf.br): every split point of every program with <= 4 top-level-visible nodes and >= 2 top-level statements
    g3 = ST.Grammar(leaves, controls=("FOR", "IF"), max_depth=1)
    for p in g3.programs(4):
        if len(p) >= 2 and ST.count(p, lambda s: s[0] in ("D", "C")) >= 1:
            for k in range(1, len(p)):
                cases.append((p, 2, k))
    # the same code in a private function, and in a private helper called from the public entry point (programs with <= 3 nodes)
    for p in g3.programs(3):
        if ST.count(p, lambda s: s[0] in ("D", "C")) >= 1:
            for n in b["cores"]:
                cases.append((p, n, "private"))
                cases.append((p, n, "helper"))
    return cases


def to_variant(text, how):
    if how == "private":
        return text.replace("func.func @f(", "func.func private @f(")
    head = text.index("func.func @f(") + len("func.func @f(")
    end = text.index(") {\n", head)
    args = text[head:end]
    names = [a.split(":")[0].strip() for a in args.split(",")]
    types = [a.split(":", 1)[1].strip() for a in args.split(",")]
    entry = f"func.func @f({args}) {{\n  func.call @g({', '.join(names)}) : ({', '.join(types)}) -> ()\n  func.return\n}}\n"
    text = text.replace("func.func @f(", "func.func private @g(")
    k = text.rindex("}")
    return text[:k] + entry + text[k:]


# the kernels the xDMA extensions document (operation, operand types + result types): only these are data movement
XDMA_EXTENSION_KERNELS = {("kernel.add", ("i32", "i32", "i32")), ("kernel.rescale", ("i32", "i8")), ("kernel.rescale", ("i8", "i32"))}
KIND = {"memref.copy": "D", "linalg.generic": "C", "dart.operation": "C", "test.op": "O", "snax.cluster_sync_op": "B"}


def run(mod, fname, args, core):
    ev = []

    def h_event(it, op):
        name = op.name if op.name != "builtin.unregistered" else op.op_name.data
        ident = op.attributes.get("verif.id")
        kind = KIND[name]
        if name == "dart.operation" and op.accelerator.data == "snax_xdma":
            kop = op.body.block.first_op.body.block.first_op
            sig = (kop.name, tuple(str(t) for t in list(kop.operand_types) + list(kop.result_types)))
            kind = "D" if sig in XDMA_EXTENSION_KERNELS else "O"
        vals = tuple(it.get(o) for o in op.operands if kind == "O" and name == "test.op")
        ev.append((kind, ident.value.data if ident is not None else None, vals))
        return [0 for _ in op.results]

    def h_call(it, op):
        callee = op.callee.string_value()
        if callee == "snax_cluster_core_idx":
            return [core]
        target = None
        for f in mod.walk():
            if f.name == "func.func" and f.sym_name.data == callee and f.body.blocks:
                target = f
        if target is None:
            raise InterpError(f"call to unknown function {callee}")
        # nested execution with a fresh SSA environment for the callee body
        saved = it.env
        it.env = {}
        try:
            term, vals = it.run_func(target, [saved[o] if o in saved else it.get(o) for o in op.operands])
        finally:
            it.env = saved
        return vals

    h = {"memref.copy": h_event, "linalg.generic": h_event, "dart.operation": h_event, "test.op": h_event, "snax.cluster_sync_op": h_event, "func.call": h_call}
    it = Interp(handlers=h, budget=50000)
    try:
        it.run_func(find_func(mod, fname), args)
    except UseBeforeDef as e:
        ev.append(("use-before-def", str(e)[:100], ()))
    except StepBudget:
        ev.append(("step-budget", None, ()))
    return ev, it.steps


def allowed(kind, core, n):
    if kind == "D":
        return core == n - 1
    if kind == "C":
        return core == 0
    return True


def evaluate(case, only=None) -> CaseResult:
    prog, n, split = case
    r = CaseResult()
    common.ensure_xdma()
    em = ST.Emitter(leaf_emit, BUFS)
    text = em.emit(prog, split_at=split if isinstance(split, int) else None)
    if isinstance(split, str):
        text = to_variant(text, split)
    try:
        base = common.parse(text)
        base.verify()
    except Exception as e:
        raise RuntimeError(f"generator bug: {e}\n{text}")
    out = base.clone()
    try:
        common.run_pipeline(out, f"dispatch-regions{{nb_cores={n}}}")
    except Exception as e:
        r.rejected = "dispatch:" + type(e).__name__
        r.count("exc:" + type(e).__name__ + ":" + str(e)[:60])
        return r
    pinned = out.clone()
    pin_ok = True
    try:
        common.run_pipeline(pinned, "function-constant-pinning")
    except Exception as e:
        pin_ok = False
        r.count("pinning_rejected:" + type(e).__name__)
    r.nontrivial = True
    obs = []
    b = BOUNDS["quick"]
    out_text = common.to_text(out)
    for trips in itertools.product(b["trips"], repeat=em.nfor):
        for conds in itertools.product([1, 0], repeat=em.nif):
            if only is not None and only != [list(trips), list(conds)]:
                continue
            args = [None] * len(BUFS) + list(conds) + list(trips)
            ref, s0 = run(base, "f", args, 0)
            r.transitions += s0
            r.states += len(ref)
            obs.append(hash(tuple(ref)))
            for core in range(n):
                want = [e for e in ref if allowed(e[0], core, n)]
                got, s1 = run(out, "f", args, core)
                r.transitions += s1
                r.validated += 1
                key = f"{prog!r}|{n}|{split}|{trips}|{conds}|core{core}"
                case_j = dict(prog=prog, n=n, split=split, vector=[trips, conds], core=core, output_ir=out_text)
                if got != want:
                    r.violate(key + "|dispatch", case_j, f"core {core} of {n} executes {got} but the original program filtered by the dispatch rule is {want}; trips={trips} conds={conds}; program {prog!r}")
                    continue
                if pin_ok:
                    gotp, s2 = run(pinned, "f", args, core)
                    r.transitions += s2
                    if gotp != want:
                        r.violate(key + "|pinned", case_j, f"after function-constant-pinning core {core} of {n} executes {gotp}, expected {want}; program {prog!r}")
    r.obs = (prog, n, split, tuple(obs))
    r.sample = dict(program=repr(prog), nb_cores=n, dispatched_ir=out_text)
    return r


def replay(case):
    v = case["vector"]
    return evaluate((ST.from_json(case["prog"]), case["n"], case.get("split")), only=[list(v[0]), list(v[1])]).violations
