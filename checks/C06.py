"""C06 — setup/compute overlap keeps every launch's configuration.

Shape A. Inputs to the pass are the real accfg-trace-states + accfg-dedup outputs of every G_acc program up to the bound
(setups fed by pure chains over induction variables and outer values, loops with run-time and with constant bounds, nested
loops / ifs / calls, several launches per body). Real code: accfg-config-overlap (+ accfg-insert-resets in thorough).
Input and output IR are executed on the register machine for every input vector: identical launch/await/call traces with
full register snapshots, and no use of a value before its definition.
"""
from __future__ import annotations

from mc import common
from mc.driver import CaseResult
from gen import accfg as G
from checks.accfg_common import clone_module, execute, first_diff, fmt_event

PID = "C06"
RULE = (
    "all G_acc programs (rich value atoms: induction variable, induction+argument chain, i - lower bound, i * a constant defined inside the loop body, outer induction variable; run-time and constant loop "
    "bounds incl. a constant zero-trip loop; calls; ifs) with <= N nodes -> real trace+dedup -> real accfg-config-overlap; each x all loop-bound / "
    "branch vectors. distinct = distinct (program, traces); non-trivial = the overlap pass changed the IR"
)
ASSUMPTIONS = [
    "register machine of machines/accm.py: a launch snapshots the register file, so a setup moved between launch and await is invisible to that launch (the hardware contract the pass relies on)",
    "the documented extra setup of the last iteration is allowed: only what launches observe is compared",
]
BOUNDS = {
    "quick": dict(nodes=4, nesting=2, cfor=[(0, 2, 1), (1, 7, 3), (3, 3, 1)]),
    "thorough": dict(nodes=5, nesting=3, cfor=[(0, 2, 1), (1, 7, 3), (3, 3, 1)]),
}
CASE_TIMEOUT = 6
BASE = "accfg-trace-states,accfg-dedup"
PIPELINES = {"quick": ["accfg-config-overlap"], "thorough": ["accfg-config-overlap", "accfg-config-overlap,accfg-insert-resets", "accfg-config-overlap,accfg-dedup"]}
_TIER = ["quick"]


def space(tier):
    _TIER[0] = tier
    b = BOUNDS[tier]
    g1 = G.Grammar(accs=("acc1",), calls=("CALL",), ifp=False, rich=True, max_depth=b["nesting"], cfor=b["cfor"])
    p1 = [p for p in g1.programs(b["nodes"]) if G.has_launch(p)]
    seen = set(p1)
    g2 = G.Grammar(accs=("acc1", "acc2"), calls=(), rich=False, max_depth=2, cfor=b["cfor"][:1])
    p2 = [p for p in g2.programs(3 if tier == "quick" else 4) if G.count_nodes(p, "L") >= 2 and p not in seen]
    slim = []
    if tier == "quick":
        seen |= set(p2)
        slim = [p for p in G.slim_programs(b["nodes"] + 1) if p not in seen and G.count_nodes(p, "L") >= 2 and G.count_nodes(p, "FOR") >= 1]
    return p1 + p2 + slim + G.skeletons("acc1")


def evaluate(prog, only_vector=None, tier=None) -> CaseResult:
    r = CaseResult()
    text, nfor, nif = G.emit(prog)
    try:
        base = common.compile_text(text, BASE)
    except common.Rejected as e:
        r.rejected = "base:" + e.kind
        return r
    base_text = common.to_text(base)
    outs = []
    for pl in PIPELINES[tier or _TIER[0]]:
        m = clone_module(base)
        try:
            common.run_pipeline(m, pl)
        except Exception as e:
            r.count("rejected_" + pl + ":" + type(e).__name__)
            continue
        outs.append((pl, m, common.to_text(m)))
    if not outs:
        r.rejected = "overlap"
        return r
    changed = any(t != base_text for _, _, t in outs)
    r.nontrivial = changed
    r.count("programs_changed_by_overlap", int(changed))
    r.count("programs_with_loop_level_overlap", int(any(t.count("accfg.setup") > base_text.count("accfg.setup") for _, _, t in outs)))
    obs, nvec = [], 0
    for loops, conds in G.input_vectors(nfor, nif):
        if only_vector is not None and [list(map(list, loops)), list(conds)] != only_vector:
            continue
        nvec += 1
        if nvec > 400:
            r.count("vector_cap_hit")
            break
        args = G.args_for(loops, conds)
        t0, m0, it0 = execute(base, args)
        r.transitions += it0.steps
        r.states += len(t0)
        obs.append(hash(tuple(map(repr, t0))))
        for pl, m, otext in outs:
            t1, m1, it1 = execute(m, args)
            r.transitions += it1.steps
            r.validated += 1
            d = first_diff(t0, t1)
            if d is not None:
                i, a, b = d
                r.violate(
                    f"{prog!r}|{pl}|{loops}|{conds}",
                    dict(prog=prog, pipeline=pl, vector=[loops, conds], input_ir=base_text, output_ir=otext),
                    f"{pl}: event {i} differs for loops={loops} conds={conds}: before [{fmt_event(a)}] vs after [{fmt_event(b)}]; program {prog!r}",
                )
    r.obs = (prog, tuple(obs))
    r.sample = dict(program=repr(prog), input_ir=base_text, vectors=nvec, changed=changed)
    return r


def replay(case):
    tier = "thorough" if case["pipeline"] not in PIPELINES["quick"] else "quick"
    r = evaluate(G.from_json(case["prog"]), only_vector=[[list(t) for t in case["vector"][0]], list(case["vector"][1])], tier=tier)
    return [v for v in r.violations if f"|{case['pipeline']}|" in v[0]]
