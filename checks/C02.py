"""C02 — streamer address streams equal the scheduled element stream.

Shape A: dart.operation programs (gemmx matmul i8xi8->i32, matmul with i8 output through a rescale stage, gemm with C operand; ALU elementwise 1-D / 2-D) over
operand shapes that are template multiples, with the layouts chosen by the real set-memory-layout{tiled=true|false} or a family of hand-given tiled-strided
layouts, go through the real insert-accfg-op, dart-scheduler, [set-memory-layout], dart-layout-resolution, convert-dart-to-snax-stream (incl. each accelerator's
set_stride_patterns). Reference: for every temporal step of the schedule (outer dims, last fastest) the set of bytes holding the elements the schedule assigns
to that step under the operand's layout (independent evaluator). Implementation: the byte sets the streamer touches per temporal step of its final StridePattern
(machines/stream.py, 8-byte ports). The two sequences must be equal step by step for every operand; disabled streamers touch nothing.
The programs then continue through the real convert-linalg-to-accfg: the bound / stride register values written for each streamer must generate the
address sequence of that stride pattern (padded; zero-stride reuse dimensions fetched once).
"""
from __future__ import annotations

import itertools

import numpy as np

from mc import common
from mc.driver import CaseResult
from machines import layout as ref
from machines import stream as SM

from snaxc.ir.dart.affine_transform import AffineTransform

PID = "C02"
RULE = (
    "gemmx: M,N,K in {8,16,24} x kernels {qmac->i32, mac->i32, qmac->rescale->i8, gemm with C} x layouts {set-memory-layout tiled, untiled, hand-given TSL family "
    "(tile order swapped, padded tile strides, gaps)}; gram programs D = X*X^T (ONE buffer as two operands with different access patterns) and x+x; alu: lengths 4..64 step 4 and 2-D shapes, i64, tiled/untiled. Every temporal step of every operand stream "
    "is compared as a byte set. distinct = distinct (program, stride patterns); non-trivial = the stream has >= 2 temporal steps"
)
ASSUMPTIONS = [
    "streamer semantics: machines/stream.py (temporal index 0 fastest, one 8-byte word per spatial port at base + sum t*ts + sum s*ss)",
    "schedule semantics: outer (temporal) dims iterate lexicographically with the last one fastest; the innermost template dims are spatial",
    "layout semantics: machines/layout.py; element byte k of element e lives at addr(e)*elsize + k",
    "snax_xdma: reader and writer move 64 bytes per step whatever the element width, so for the narrower operand consecutive schedule steps are merged (order kept) before comparing",
]
BOUNDS = {"quick": dict(sizes=[8, 16, 24]), "thorough": dict(sizes=[8, 16, 24, 32])}
CASE_TIMEOUT = 120
EL = {8: "i8", 32: "i32", 64: "i64"}


def mm_text(M, N, K, kern, layouts=None, gram=False):
    """layouts: optional per-operand TSL text. gram: D = X * X^T, i.e. ONE buffer used as both input operands with different access patterns (needs M == N)"""
    lay = layouts or [None] * 4
    out_i8 = kern in ("rescale", "gemm_rescale")

    def ty(shape, w, l):
        return "memref<" + "x".join(map(str, shape)) + "x" + EL[w] + (f", {l}" if l else "") + ', "L1">'

    ta, tb = ty((M, K), 8, lay[0]), ty((K, N), 8, lay[1])
    tc = ty((M, N), 8 if out_i8 else 32, lay[2])
    args = [f"%a : {ta}", f"%b : {tb}", f"%c : {tc}"]
    maps = ["affine_map<(d0, d1, d2) -> (d0, d2)>", "affine_map<(d0, d1, d2) -> (d2, d1)>", "affine_map<(d0, d1, d2) -> (d0, d1)>"]
    ins, ins_t = ["%a", "%b"], [ta, tb]
    streams = ["%s0 : !dart.stream<i8>", "%s1 : !dart.stream<i8>"]
    pre = ""
    if gram:
        assert M == N
        args.pop(1)
        maps[1] = "affine_map<(d0, d1, d2) -> (d1, d2)>"
        ins, ins_t = ["%a", "%a"], [ta, ta]
    if kern in ("gemm", "gemm_rescale"):
        tcc = ty((M, N), 32, lay[3])
        args.append(f"%cc : {tcc}")
        maps.insert(2, "affine_map<(d0, d1, d2) -> (d0, d1)>")
        ins.append("%cc")
        ins_t.append(tcc)
        streams.append("%s2 : !dart.stream<i32>")
    streams.append(f"%so : !dart.stream<{'i8' if out_i8 else 'i32'}>")
    if kern in ("qmac", "rescale", "gemm", "gemm_rescale"):
        pre = "  %z0 = arith.constant 3 : i32\n  %z1 = arith.constant 5 : i32\n"
        g1 = (
            '    %g = "dart.generic"(%s0, %s1, %z0, %z1) <{library_call = "snax_gemmx"}> ({\n    ^bb1(%e0 : i8, %e1 : i8, %e2 : i32, %e3 : i32, %e4 : i32):\n'
            "      %k = kernel.qmac %e0, %e1 zp_lhs : %e2 zp_rhs : %e3 : i8, i8, i32, i32 -> i32\n      dart.yield %k : i32\n    }) : (!dart.stream<i8>, !dart.stream<i8>, i32, i32) -> !dart.stream<i32>\n"
        )
    else:
        g1 = (
            '    %g = "dart.generic"(%s0, %s1) <{library_call = "snax_gemmx"}> ({\n    ^bb1(%e0 : i8, %e1 : i8, %e4 : i32):\n'
            "      %k = kernel.mac %e0, %e1 : i8, i8 -> i32\n      dart.yield %k : i32\n    }) : (!dart.stream<i8>, !dart.stream<i8>) -> !dart.stream<i32>\n"
        )
    body = g1
    if kern == "rescale":
        body += (
            '    %g2 = "dart.generic"(%g) <{library_call = "snax_gemmx"}> ({\n    ^bb2(%f0 : i32, %f1 : i8):\n'
            "      %k2 = kernel.rescale %f0 {input_zp = 0 : i32, output_zp = 0 : i32, multiplier = array<i32: 1>, shift = array<i32: 9>, max_int = 127 : i32, min_int = -128 : i32, double_round = false} : (i32) -> i8\n"
            "      dart.yield %k2 : i8\n    }) : (!dart.stream<i32>) -> !dart.stream<i8>\n    dart.yield %g2 : !dart.stream<i8>\n"
        )
    elif kern == "gemm_rescale":
        body += (
            '    %g2 = "dart.generic"(%g, %s2) <{library_call = "snax_gemmx"}> ({\n    ^bb2(%f0 : i32, %f1 : i32, %f2 : i32):\n'
            "      %k2 = kernel.add %f0, %f1 : i32, i32 -> i32\n      dart.yield %k2 : i32\n    }) : (!dart.stream<i32>, !dart.stream<i32>) -> !dart.stream<i32>\n"
            '    %g3 = "dart.generic"(%g2) <{library_call = "snax_gemmx"}> ({\n    ^bb3(%h0 : i32, %h1 : i8):\n'
            "      %k3 = kernel.rescale %h0 {input_zp = 0 : i32, output_zp = 0 : i32, multiplier = array<i32: 1>, shift = array<i32: 9>, max_int = 127 : i32, min_int = -128 : i32, double_round = false} : (i32) -> i8\n"
            "      dart.yield %k3 : i8\n    }) : (!dart.stream<i32>) -> !dart.stream<i8>\n    dart.yield %g3 : !dart.stream<i8>\n"
        )
    elif kern == "gemm":
        body += (
            '    %g2 = "dart.generic"(%g, %s2) <{library_call = "snax_gemmx"}> ({\n    ^bb2(%f0 : i32, %f1 : i32, %f2 : i32):\n'
            "      %k2 = kernel.add %f0, %f1 : i32, i32 -> i32\n      dart.yield %k2 : i32\n    }) : (!dart.stream<i32>, !dart.stream<i32>) -> !dart.stream<i32>\n    dart.yield %g2 : !dart.stream<i32>\n"
        )
    else:
        body += "    dart.yield %g : !dart.stream<i32>\n"
    text = (
        "builtin.module {\nfunc.func @f(" + ", ".join(args) + ") {\n" + pre
        + f'  "dart.operation"({", ".join(ins + ["%c"])}) <{{patterns = [{", ".join(maps)}], accelerator = "snax_gemmx", operandSegmentSizes = array<i32: {len(ins)}, 1>}}> ({{\n'
        + f"  ^bb0({', '.join(streams)}):\n" + body + "  }) : (" + ", ".join(ins_t + [tc]) + ") -> ()\n  func.return\n}\n}\n"
    )
    return text


def split_schedule_text(layouts):
    """32 x 8 x 16 quantised matmul given as a dart.schedule whose M loop is already split over two tile levels: dims (m0:2, m1:2, k1:2 | m:8, n:8, k:8)"""
    import re

    text = mm_text(32, 8, 16, "qmac", layouts)
    maps = [
        "affine_map<(d0, d1, d2, d3, d4, d5) -> (d0 * 16 + d1 * 8 + d3, d2 * 8 + d5)>",
        "affine_map<(d0, d1, d2, d3, d4, d5) -> (d2 * 8 + d5, d4)>",
        "affine_map<(d0, d1, d2, d3, d4, d5) -> (d0 * 16 + d1 * 8 + d3, d4)>",
    ]
    text = text.replace('"dart.operation"', '"dart.schedule"')
    text = re.sub(r"patterns = \[.*?\], accelerator", "patterns = [" + ", ".join(maps) + "], tiles = [[]], bounds = [2 : index, 2 : index, 2 : index, 8 : index, 8 : index, 8 : index], accelerator", text, count=1)
    return text


def simd_text(M, K):
    """rescale-only use of snax_gemmx: D8 = rescale(C)"""
    ti, to = f'memref<{M}x{K}xi32, "L1">', f'memref<{M}x{K}xi8, "L1">'
    m = "affine_map<(d0, d1) -> (d0, d1)>"
    return (
        f"builtin.module {{\nfunc.func @f(%m0 : {ti}, %m1 : {to}) {{\n"
        f'  "dart.operation"(%m0, %m1) <{{patterns = [{m}, {m}], accelerator = "snax_gemmx", operandSegmentSizes = array<i32: 1, 1>}}> ({{\n'
        "  ^bb0(%s0 : !dart.stream<i32>, %s1 : !dart.stream<i8>):\n"
        '    %g = "dart.generic"(%s0) <{library_call = "snax_gemmx"}> ({\n    ^bb1(%e0 : i32, %e1 : i8):\n'
        "      %k = kernel.rescale %e0 {input_zp = 0 : i32, output_zp = 0 : i32, multiplier = array<i32: 1>, shift = array<i32: 9>, max_int = 127 : i32, min_int = -128 : i32, double_round = false} : (i32) -> i8\n"
        "      dart.yield %k : i8\n    }) : (!dart.stream<i32>) -> !dart.stream<i8>\n    dart.yield %g : !dart.stream<i8>\n"
        f"  }}) : ({ti}, {to}) -> ()\n  func.return\n}}\n}}\n"
    )


def alu_text(shape, layouts=None, same=False):
    lay = layouts or [None] * 3
    rank = len(shape)

    def ty(l):
        return "memref<" + "x".join(map(str, shape)) + "xi64" + (f", {l}" if l else "") + ', "L1">'

    tys = [ty(l) for l in lay]
    dims = ", ".join(f"d{i}" for i in range(rank))
    m = f"affine_map<({dims}) -> ({dims})>"
    text = (
        "builtin.module {\nfunc.func @f(" + ", ".join(f"%m{i} : {t}" for i, t in enumerate(tys)) + ") {\n"
        + f'  "dart.operation"(%m0, {"%m0" if same else "%m1"}, %m2) <{{patterns = [{m}, {m}, {m}], accelerator = "snax_alu", operandSegmentSizes = array<i32: 2, 1>}}> ({{\n'
        "  ^bb0(%s0 : !dart.stream<i64>, %s1 : !dart.stream<i64>, %s2 : !dart.stream<i64>):\n"
        '    %g = "dart.generic"(%s0, %s1) <{library_call = "snax_alu"}> ({\n    ^bb1(%e0 : i64, %e1 : i64, %e2 : i64):\n      %k = kernel.add %e0, %e1 : i64, i64 -> i64\n      dart.yield %k : i64\n'
        "    }) : (!dart.stream<i64>, !dart.stream<i64>) -> !dart.stream<i64>\n    dart.yield %g : !dart.stream<i64>\n"
        "  }) : (" + ", ".join(tys) + ") -> ()\n  func.return\n}\n}\n"
    )
    return text


def xdma_text(n, kern):
    """snax_xdma (registered with its default streamer configuration): element-wise kernels handled by a DMA extension"""
    if kern == "add":
        tys, els = [f'memref<{n}xi32, "L1">'] * 3, ["i32", "i32", "i32"]
        k = "%k = kernel.add %e0, %e1 : i32, i32 -> i32"
    else:
        a, b = ("i32", "i8") if kern == "rdown" else ("i8", "i32")
        tys, els = [f'memref<{n}x{a}, "L1">', f'memref<{n}x{b}, "L1">'], [a, b]
        k = f"%k = kernel.rescale %e0 {{input_zp = 3 : i32, output_zp = 5 : i32, multiplier = array<i32: 7>, shift = array<i32: 9>, max_int = 127 : i32, min_int = -128 : i32, double_round = false}} : ({a}) -> {b}"
    nin = len(tys) - 1
    m = "affine_map<(d0) -> (d0)>"
    args = ", ".join(f"%m{i} : {t}" for i, t in enumerate(tys))
    streams = ", ".join(f"%s{i} : !dart.stream<{e}>" for i, e in enumerate(els))
    bargs = ", ".join(f"%e{i} : {e}" for i, e in enumerate(els))
    gin = ", ".join(f"%s{i}" for i in range(nin))
    gint = ", ".join(f"!dart.stream<{e}>" for e in els[:nin])
    return (
        "builtin.module {\nfunc.func @f(" + args + ") {\n"
        f'  "dart.operation"({", ".join(f"%m{i}" for i in range(len(tys)))}) <{{patterns = [{", ".join([m] * len(tys))}], accelerator = "snax_xdma", operandSegmentSizes = array<i32: {nin}, 1>}}> ({{\n'
        f"  ^bb0({streams}):\n"
        f'    %g = "dart.generic"({gin}) <{{library_call = "snax_xdma"}}> ({{\n    ^bb1({bargs}):\n      {k}\n      dart.yield %k : {els[-1]}\n'
        f"    }}) : ({gint}) -> !dart.stream<{els[-1]}>\n    dart.yield %g : !dart.stream<{els[-1]}>\n"
        "  }) : (" + ", ".join(tys) + ") -> ()\n  func.return\n}\n}\n"
    )


def ensure_xdma():
    common.ensure_xdma()


def tsl(dims, offset=0):
    t = ", ".join("[" + ", ".join(str(b) for b, _ in d) + "] -> (" + ", ".join(str(s) for _, s in d) + ")" for d in dims)
    return "#tsl.tsl<" + t + (f", offset: {offset}" if offset else "") + ">"


def hand_layouts(R, C, tile=8, pitchpad=0):
    """tiled layouts for an R x C operand with 8x8 tiles: tile-row-major / tile-col-major, inner row-/col-major, padded tile stride, gaps"""
    ro, co = R // tile, C // tile
    out = []
    t = tile * tile
    for outer in ("rm", "cm"):
        for inner in ("rm", "cm"):
            for pad in (0, 8):
                ts = t + pad
                # pitchpad: the pitch of the outermost tile loop is padded by less than one tile
                if outer == "rm":
                    so_r, so_c = ts * co + pitchpad, ts
                else:
                    so_r, so_c = ts, ts * ro + pitchpad
                si_r, si_c = (tile, 1) if inner == "rm" else (1, tile)
                out.append([[(ro, so_r), (tile, si_r)], [(co, so_c), (tile, si_c)]])
    return out


def hand3_layouts(R, C, tile=8):
    """three tile levels in the row dimension (R = 2 * 2 * 8): the two outer levels in both stride orders, row tiles before / after the column tiles"""
    assert R == 4 * tile
    co = C // tile
    t = tile * tile
    out = []
    for rows_first in (0, 1):
        if rows_first:
            s_in, sc = t, t * 4  # the four row tiles of one column tile are adjacent
        else:
            s_in, sc = t * co, t  # the column tiles of one row tile are adjacent
        for swap in (0, 1):
            a, b = (2 * s_in, s_in) if not swap else (s_in, 2 * s_in)
            out.append([[(2, a), (2, b), (tile, tile)], [(co, sc), (tile, 1)]])
    return out


_CHOSEN = {}


def _chosen_layouts(M, N, K):
    """the layouts the real set-memory-layout{tiled=true} picks for this matmul (text), or None"""
    if (M, N, K) in _CHOSEN:
        return _CHOSEN[(M, N, K)]
    try:
        mod = common.compile_text(mm_text(M, N, K, "qmac"), "insert-accfg-op{accelerator=snax_gemmx},dart-scheduler,set-memory-layout{tiled=true}")
        out = []
        for op in mod.walk():
            if op.name == "snax.layout_cast":
                out.append("#tsl.tsl<" + str(op.results[0].type.layout.data) + ">")
        res = out if len(out) == 3 else None
    except common.Rejected:
        res = None
    _CHOSEN[(M, N, K)] = res
    return res


def space(tier):
    S = BOUNDS[tier]["sizes"]
    cases = []
    for M, N, K in itertools.product(S, repeat=3):
        for kern in ("qmac", "mac", "rescale", "gemm", "gemm_rescale"):
            if kern in ("mac", "gemm", "gemm_rescale") and (M, N, K).count(8) < 1 and tier == "quick":
                continue
            for lay in ("tiled", "untiled"):
                cases.append(("mm", M, N, K, kern, lay, -1))
    # hand-given layouts on A (and the same family index on B / C shifted) for 16^3 and 16x24x8
    # hand-given layouts: one operand at a time gets a layout of the family, the others keep what set-memory-layout{tiled} chooses
    for (M, N, K) in [(16, 16, 16), (16, 8, 24), (24, 16, 8)]:
        for which in (0, 1, 2):
            for i in range(8):
                cases.append(("mm", M, N, K, "qmac", "hand", which * 8 + i))
                cases.append(("mm", M, N, K, "qmac", "hand2", which * 8 + i))
    # three tile levels in one dimension (A: 32 x K, C: 32 x N)
    for (M, N, K) in [(32, 8, 16), (32, 16, 8)]:
        for which in (0, 2):
            for i in range(4):
                cases.append(("mm", M, N, K, "qmac", "hand3", which * 8 + i))
    # one buffer as two operands with different access patterns: D = X * X^T
    for M, K in itertools.product(S, repeat=2):
        for kern in ("qmac", "mac", "rescale", "gemm"):
            for lay in ("tiled", "untiled", "none"):
                cases.append(("gram", M, K, kern, lay))
    # ... and with the same access pattern: x + x
    for n in (8, 16, 40):
        for lay in ("tiled", "untiled", "none"):
            cases.append(("alu2", (n,), lay))
    # a schedule whose row loop is already split over the two outer tile levels of a three-level layout (every stride order)
    for which in (0, 2):
        for i in range(4):
            cases.append(("split3", which, i))
    # rescale-only use of the gemmx array
    for M, K in itertools.product(S, repeat=2):
        for lay in ("tiled", "untiled"):
            cases.append(("simd", M, K, lay))
    # snax_xdma: kernels handled by a DMA extension
    for kern in ("rdown", "rup", "add"):
        sizes = (16, 32, 48, 64, 80, 128, 256) if tier == "quick" else (16, 32, 48, 64, 128, 192, 256, 512, 1024)
        for n in sizes if kern != "add" else (16, 128):
            for lay in ("tiled", "untiled"):
                cases.append(("xdma", kern, n, lay))
    for n in range(4, 68, 4):
        for lay in ("tiled", "untiled"):
            cases.append(("alu", (n,), lay))
    for r in (1, 2, 3):
        for c in (4, 8, 12):
            for lay in ("tiled", "untiled"):
                cases.append(("alu", (r, c), lay))
    return cases


def type_layout(ty):
    """(shape, elsize, dims, offset) of a memref type for the reference evaluator"""
    shape = list(ty.get_shape())
    et = ty.element_type
    elsize = et.bitwidth // 8
    lay = ty.layout
    if hasattr(lay, "data") and hasattr(lay.data, "tstrides"):
        dims = [[(s.bound, s.step) for s in ts.strides] for ts in lay.data.tstrides]
        return shape, elsize, dims, lay.data.offset or 0
    # row-major
    dims, acc = [], 1
    for n in reversed(shape):
        dims.insert(0, [(n, acc)])
        acc *= n
    return shape, elsize, dims, 0


def evaluate(case) -> CaseResult:
    r = CaseResult()
    kind = case[0]
    key = f"{case!r}"
    if kind == "mm":
        _, M, N, K, kern, lay, hidx = case
        layouts = None
        if lay == "hand3":
            which, i = divmod(hidx, 8)
            chosen = _chosen_layouts(M, N, K)
            if chosen is None:
                r.rejected = "no-chosen-layouts"
                return r
            shapes = [(M, K), (K, N), (M, N)]
            layouts = list(chosen) + [None]
            layouts[which] = tsl(hand3_layouts(*shapes[which])[i])
        elif lay in ("hand", "hand2"):
            which, i = divmod(hidx, 8)
            chosen = _chosen_layouts(M, N, K)
            if chosen is None:
                r.rejected = "no-chosen-layouts"
                return r
            shapes = [(M, K), (K, N), (M, N)]
            layouts = list(chosen) + [None]
            layouts[which] = tsl(hand_layouts(*shapes[which], pitchpad=8 if lay == "hand2" else 0)[i])
        text = mm_text(M, N, K, kern, layouts)
        acc = "snax_gemmx"
    elif kind == "split3":
        _, which, i = case
        chosen = _chosen_layouts(32, 8, 16)
        if chosen is None:
            r.rejected = "no-chosen-layouts"
            return r
        shapes = [(32, 16), (16, 8), (32, 8)]
        layouts = list(chosen) + [None]
        layouts[which] = tsl(hand3_layouts(*shapes[which])[i])
        text = split_schedule_text(layouts)
        acc = "snax_gemmx"
        lay = "given"
    elif kind == "simd":
        _, M, K, lay = case
        text = simd_text(M, K)
        acc = "snax_gemmx"
    elif kind == "xdma":
        _, kern, n, lay = case
        ensure_xdma()
        text = xdma_text(n, kern)
        acc = "snax_xdma"
    elif kind == "gram":
        _, M, K, kern, lay = case
        text = mm_text(M, M, K, kern, gram=True)
        acc = "snax_gemmx"
    else:
        _, shape, lay = case
        text = alu_text(shape, same=kind == "alu2")
        acc = "snax_alu"
    pipe1 = f"insert-accfg-op{{accelerator={acc}}}" + ("" if kind == "split3" else ",dart-scheduler")
    if lay in ("tiled", "untiled"):
        pipe1 += f",set-memory-layout{{tiled={'true' if lay == 'tiled' else 'false'}}}"
    case_j = dict(case=case, program=text)
    try:
        mod = common.compile_text(text, pipe1)
    except common.Rejected as e:
        r.rejected = "schedule:" + e.kind
        r.count("rejected_schedule:" + str(e)[:70])
        return r
    sched = None
    for op in mod.walk():
        if op.name == "dart.schedule":
            sched = op
    if sched is None:
        r.rejected = "no-schedule"
        return r
    # ---- reference, from the schedule + operand layouts
    acc_obj = common.ctx().get_acc(acc)
    template = acc_obj.get_template(sched)
    nsp = template.num_dims
    bounds = [b.value.data for b in sched.bounds.data]
    mats = [AffineTransform.from_affine_map(p.data) for p in sched.patterns.data]
    ndim = len(bounds)
    outer, inner = bounds[: ndim - nsp], bounds[ndim - nsp :]
    ref_streams = []
    for o, (operand, T) in enumerate(zip(sched.operands, mats)):
        shape, elsize, dims, off = type_layout(operand.type)
        seq = []
        for t in itertools.product(*[range(b) for b in outer]):
            bytes_ = set()
            for s in itertools.product(*[range(b) for b in inner]):
                idx = [int(v) for v in (T.A @ np.array(list(t) + list(s), dtype=np.int_) + T.b)]
                a = (ref.addr(dims, idx) + off) * elsize
                for k in range(elsize):
                    bytes_.add(a + k)
            seq.append(frozenset(bytes_))
        ref_streams.append(seq)
    sched_operands = list(sched.operands)
    # ---- implementation
    try:
        common.run_pipeline(mod, "dart-layout-resolution,convert-dart-to-snax-stream")
    except Exception as e:
        r.rejected = "convert:" + type(e).__name__
        r.count("rejected_convert:" + type(e).__name__ + ":" + str(e)[:50])
        return r
    region = None
    for op in mod.walk():
        if op.name == "snax_stream.streaming_region":
            region = op
    streamers = list(acc_obj.streamer_config.data.streamers)
    if len(region.operands) != len(streamers):
        r.violate(key + "|nstreamers", case_j, f"{len(region.operands)} stream operands for {len(streamers)} streamers")
        return r
    # which schedule operand does each streamer pointer come from?
    impl = {}
    pats_text = []
    taken = {}
    for si, (ptr, pat, st) in enumerate(zip(region.operands, region.stride_patterns.data, streamers)):
        ub = [x.data for x in pat.upper_bounds.data]
        ts = [x.data for x in pat.temporal_strides.data]
        ss = [x.data for x in pat.spatial_strides.data]
        pats_text.append(f"ub={ub} ts={ts} ss={ss}")
        src = None
        owner = ptr.owner
        if getattr(owner, "name", None) == "memref.extract_aligned_pointer_as_index":
            src = owner.operands[0]
        if src is None or any(u == 0 for u in ub):
            # zero-pointer stream or disabled streamer: must not be bound to an operand with a non-empty stream
            continue
        # an SSA value that occurs as several operands is identified by position: the k-th enabled streamer reading it carries its k-th occurrence
        occ = [i for i, v in enumerate(sched_operands) if v is src]
        if not occ:
            continue
        o = occ[min(taken.get(id(src), 0), len(occ) - 1)]
        taken[id(src)] = taken.get(id(src), 0) + 1
        temporal = SM.temporal_addresses(ub, ts)
        spatial = SM.spatial_offsets(ss, list(st.spatial_dims)[: len(ss)])
        seq = []
        for ta in temporal:
            b = set()
            for so in spatial:
                for k in range(8):
                    b.add(ta + so + k)
            seq.append(frozenset(b))
        impl.setdefault(o, []).append((si, seq))
    patterns = [([x.data for x in pat.upper_bounds.data], [x.data for x in pat.temporal_strides.data], [x.data for x in pat.spatial_strides.data]) for pat in region.stride_patterns.data]
    zero_ptr = [getattr(ptr.owner, "name", None) != "memref.extract_aligned_pointer_as_index" for ptr in region.operands]
    r.states = sum(len(s) for s in ref_streams)
    r.nontrivial = any(len(s) >= 2 for s in ref_streams)
    r.obs = (case, tuple(pats_text))
    r.validated = 1
    r.sample = dict(case=repr(case), schedule_bounds=bounds, stride_patterns=pats_text)
    for o, seq in enumerate(ref_streams):
        if o not in impl:
            r.violate(key + f"|unbound{o}", case_j, f"operand {o} of the scheduled operation is not streamed by any enabled streamer; patterns {pats_text}")
            continue
        if len(impl[o]) > 1:
            r.violate(key + f"|double{o}", case_j, f"operand {o} is streamed by several enabled streamers {[s for s, _ in impl[o]]}")
            continue
        si, got = impl[o][0]
        r.transitions += len(got)
        if acc == "snax_xdma" and got and len(seq) > len(got) and len(seq) % len(got) == 0:
            # the DMA moves 64 bytes per step on both sides whatever the element width: a narrow operand advances several schedule steps per
            # streamer step. Compare at the streamer's granularity (consecutive schedule steps merged, order kept)
            g = len(seq) // len(got)
            seq = [frozenset().union(*seq[k * g : (k + 1) * g]) for k in range(len(got))]
        if got != seq:
            i = next((k for k, (x, y) in enumerate(zip(got, seq)) if x != y), min(len(got), len(seq)))
            gx = sorted(got[i])[:6] if i < len(got) else None
            wx = sorted(seq[i])[:6] if i < len(seq) else None
            r.violate(
                key + f"|stream{o}", case_j,
                f"operand {o} (streamer {si}: {pats_text[si]}): temporal step {i} touches bytes {gx}... ({len(got[i]) if i < len(got) else 0} bytes) but the schedule assigns bytes {wx}... "
                f"({len(seq[i]) if i < len(seq) else 0} bytes); streamer steps {len(got)}, schedule steps {len(seq)}; schedule bounds {bounds}",
            )
    if not r.violations:
        csr_level(r, mod, acc_obj, streamers, patterns, zero_ptr, key, case_j)
    return r


def csr_level(r, mod, acc_obj, streamers, patterns, zero_ptr, key, case_j):
    """the same streams once more at the register level: the bound / stride registers the real convert-linalg-to-accfg writes for each streamer must generate
    the address sequence of the final stride pattern (padded to the hardware dimensionality; a reuse dimension with stride 0 is fetched once)"""
    from machines.ir import Interp, InterpError, UseBeforeDef, find_func

    try:
        common.run_pipeline(mod, "convert-linalg-to-accfg")
    except Exception as e:
        r.count("csr_level_rejected:" + type(e).__name__)
        return
    setup = next((op for op in mod.walk() if op.name == "accfg.setup"), None)
    if setup is None:
        r.count("csr_level_rejected:no-setup")
        return
    names = [p.data for p in setup.param_names]
    bases = {}

    def h_ptr(it, op):
        return [bases.setdefault(op.operands[0], 0x100000 * (len(bases) + 1))]

    def h_view(it, op):
        return [None]

    h = {
        "memref.extract_aligned_pointer_as_index": h_ptr, "snax.layout_cast": h_view, "memref.subview": h_view, "memref.cast": h_view, "accfg.setup": lambda it, op: [("state",)], "accfg.launch": lambda it, op: [("tok",)],
        "accfg.await": lambda it, op: [], "snax_stream.streaming_region": lambda it, op: [], "func.call": lambda it, op: [0 for _ in op.results],
    }
    it = Interp(handlers=h, budget=50000)
    f = find_func(mod, "f")
    try:
        it.run_func(f, [None] * len(f.body.block.args))
        got = dict(zip(names, [it.get(v) for v in setup.values]))
    except (UseBeforeDef, InterpError, TypeError) as e:
        r.count("csr_level_rejected:eval:" + type(e).__name__)
        return
    r.count("csr_level_checked")
    for name, st, (ub, ts, ss), zp in zip(acc_obj.streamer_names, streamers, patterns, zero_ptr):
        if zp or any(u == 0 for u in ub):
            continue
        T, S = len(st.temporal_dims), len(st.spatial_dims)
        try:
            hb = [got[f"{name}_bound_{i}"] for i in range(T)]
            ht = [got[f"{name}_tstride_{i}"] for i in range(T)]
            hs = [got[f"{name}_sstride_{j}"] for j in range(S)]
        except KeyError as e:
            r.violate(key + f"|csr-missing-{name}", case_j, f"no register value for {e} of streamer {name}")
            continue
        eb = [1 if (str(fl) == "r" and t == 0) else u for u, t, fl in zip(ub, ts, st.temporal_dims)] + [1] * (T - len(ub))
        et = list(ts) + [0] * (T - len(ts))
        want = SM.temporal_addresses(eb, et)
        have = SM.temporal_addresses(hb, ht)
        r.transitions += len(have)
        if want != have or list(hs) != list(ss)[:S] + [0] * (S - len(ss)):
            i = next((k for k, (x, y) in enumerate(zip(have, want)) if x != y), min(len(have), len(want)))
            r.violate(
                key + f"|csr-{name}", case_j,
                f"streamer {name}: registers bounds={hb} tstrides={ht} sstrides={hs} generate {len(have)} temporal steps, the stride pattern ub={ub} ts={ts} ss={ss} "
                f"means {len(want)} steps (first difference at step {i}: {have[i] if i < len(have) else None} vs {want[i] if i < len(want) else None})",
            )


def _t(x):
    return tuple(_t(i) for i in x) if isinstance(x, list) else x


def replay(case):
    return evaluate(_t(case["case"])).violations
