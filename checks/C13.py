"""C13 — cross-core dependencies are separated by a cluster barrier.

Shape B. Every program over data-movement / compute ops on shared buffers (straight-line, in loops, with pre-existing barriers
and a trailing dealloc) -> real insert-sync-barrier -> real dispatch-regions{nb_cores=2} (thorough: + snax-to-func, 3 cores).
The output is interpreted once per core id to obtain per-core event lists; the core machine then explores ALL interleavings of
whole ops between barriers. Violations: deadlock (a barrier not executed by all cores), any reachable outcome (per-op observed
input terms + final buffer terms) that differs from the sequential reference, use of a buffer another core deallocated.
"""
from __future__ import annotations

import itertools

from mc import common
from mc.driver import CaseResult
from gen import struct as ST
from machines import cores as CM
from machines.ir import Interp, InterpError, StepBudget, UseBeforeDef, find_func
from machines.memview import View, handlers as mem_handlers

PID = "C13"
RULE = (
    "all programs with <= N ops from {DM copy x->y, compute f(x)->y} over buffers {a,b,c} (all operand choices; buffer c may be accessed through a subview "
    "alias or be a local allocation deallocated at the end), pre-existing barriers at any position, nested in scf.for / scf.if / scf.if-else (depth <= 1 quick / 2 thorough) "
    "x trip counts {0,1,2} x branch conditions; all interleavings of the two (three) cores between barriers. distinct = distinct (program, trips, reachable outcome set); "
    "non-trivial = some reachable machine state has >= 2 cores enabled"
)
ASSUMPTIONS = [
    "atomicity: a whole DMA copy / accelerator op is one step (two conflicting ops in one barrier phase already give two different observations under the two orders)",
    "buffers are compared as whole objects (a subview aliases its whole parent buffer)",
    "control flow is data independent (trip counts are arguments), so per-core event lists are obtained by one interpretation per core id",
]
BOUNDS = {
    "quick": dict(ops=3, depth=1, trips=[0, 1, 2], cores=2, to_func=False),
    # thorough: nested loops (depth 2), three cores (DM = core 2, compute = core 0, core 1 idle but at every barrier) and the
    # snax-to-func lowering (barriers become calls to snax_cluster_hw_barrier, deallocs are erased)
    "thorough": dict(ops=3, depth=2, trips=[0, 1, 2], cores=3, to_func=True),
}
_TIER = ["quick"]
CASE_TIMEOUT = 60
MT = "memref<8xi32>"
GEN = ('linalg.generic {{indexing_maps = [affine_map<(d0) -> (d0)>, affine_map<(d0) -> (d0)>], iterator_types = ["parallel"]}} '
       "ins({i} : {mt}) outs({o} : {mt}) attrs = {{verif.id = {t} : i32}} {{\n^bb0(%x{t} : i32, %y{t} : i32):\n  linalg.yield %x{t} : i32\n}}")


def leaf_emit_factory(variant):
    state = {"n": 0}

    def name(b):
        # variant 'sv': buffer c is accessed through a subview alias defined at function start
        # variant 'sv2': accesses to c alternate between two different SSA aliases (subviews) of the same memory
        if variant == "sv2" and b == "c":
            state["n"] += 1
            return "%c" if state["n"] % 2 else "%c2"
        # variant 'sv3': accesses to c alternate between a view of a view and the base buffer itself
        if variant == "sv3" and b == "c":
            state["n"] += 1
            return "%c" if state["n"] % 2 else "%cbase"
        return "%" + b

    def leaf_emit(leaf, tag, ivs):
        k = leaf[0]
        if k == "D":
            return [f'"memref.copy"({name(leaf[1])}, {name(leaf[2])}) {{verif.id = {tag} : i32}} : ({MT}, {MT}) -> ()']
        if k == "C":
            return GEN.format(i=name(leaf[1]), o=name(leaf[2]), t=tag, mt=MT).split("\n")
        if k == "B":
            return ['"snax.cluster_sync_op"() : () -> ()']
        raise ValueError(k)

    return leaf_emit


def build_text(prog, variant):
    em = ST.Emitter(leaf_emit_factory(variant), [])
    body_lines = []
    em._seq(prog, body_lines, "  ", [])
    pre, post = [], []
    args = [f"%a : {MT}", f"%b : {MT}"]
    if variant in ("arg", "arg3") or variant.startswith("cfor"):
        args.append(f"%c : {MT}")
    elif variant == "alloc":
        pre.append(f"  %c = memref.alloc() : {MT}")
        post.append(f'  "memref.dealloc"(%c) : ({MT}) -> ()')
    elif variant == "alloc_mid":
        # the local buffer is freed right after the last top-level statement that uses it, with other work following
        pre.append(f"  %c = memref.alloc() : {MT}")
        last = max(k for k, st in enumerate(prog) if ST.count((st,), lambda s: s[0] in ("D", "C") and "c" in s[1:]))
        em2 = ST.Emitter(leaf_emit_factory(variant), [])
        body_lines = []
        em2._seq(prog[: last + 1], body_lines, "  ", [])
        body_lines.append(f'  "memref.dealloc"(%c) : ({MT}) -> ()')
        em2._seq(prog[last + 1 :], body_lines, "  ", [])
        em = em2
    elif variant in ("sv", "sv2"):
        args.append(f"%cc : memref<16xi32>")
        pre.append(f"  %c = memref.subview %cc[0] [8] [1] : memref<16xi32> to {MT}")
        pre.append(f"  %c2 = memref.subview %cc[0] [8] [1] : memref<16xi32> to {MT}")
    elif variant == "sv3":
        args.append(f"%cbase : {MT}")
        pre.append(f"  %cmid = memref.subview %cbase[0] [8] [1] : {MT} to {MT}")
        pre.append(f"  %c = memref.subview %cmid[0] [8] [1] : {MT} to {MT}")
    args += [f"%c{k} : i1" for k in range(em.nif)] + [f"%n{k} : index" for k in range(em.nfor)]
    text = "builtin.module {\nfunc.func @f(" + ", ".join(args) + ") {\n  %zero = arith.constant 0 : index\n  %one = arith.constant 1 : index\n"
    text += "\n".join(pre + body_lines + post) + "\n  func.return\n}\n}\n"
    if variant.startswith("cfor"):
        # compile-time loop bounds (lb, ub, step): two iterations with a partial last step, exactly one, an exact multiple
        lb, ub, st = {"cfor64": (0, 6, 4), "cfor44": (0, 4, 4), "cfor84": (0, 8, 4), "cfor173": (1, 7, 3)}[variant]
        text = text.replace("  %one = arith.constant 1 : index\n", f"  %one = arith.constant 1 : index\n  %klb = arith.constant {lb} : index\n  %kub = arith.constant {ub} : index\n  %kst = arith.constant {st} : index\n", 1)
        for k in range(em.nfor):
            text = text.replace(f"= %zero to %n{k} step %one {{", "= %klb to %kub step %kst {")
    return text, em.nfor, em.nif


def space(tier):
    _TIER[0] = tier
    b = BOUNDS[tier]
    bufs = ["a", "b", "c"]
    leaves = [("D", s, d) for s in bufs for d in bufs if s != d] + [("C", s, d) for s in bufs for d in bufs if s != d] + [("B",)]
    g = ST.Grammar(leaves, controls=("FOR", "IF", "IFE"), max_depth=b["depth"])
    progs = []
    for p in g.programs(b["ops"] + b["depth"]):
        nops = ST.count(p, lambda s: s[0] in ("D", "C"))
        nb = ST.count(p, lambda s: s[0] == "B")
        if nops < 2 or nops > b["ops"] or nb > 1:
            continue
        if ST.count(p, lambda s: s[0] == "D") == 0 or ST.count(p, lambda s: s[0] == "C") == 0:
            continue
        progs.append(p)
    out = []
    if tier == "quick":
        # two ops at nesting depth 2 (producer and consumer at different depths of a common loop / conditional)
        g2 = ST.Grammar(leaves, controls=("FOR", "IF", "IFE"), max_depth=2)
        seen = set(progs)
        for p in g2.programs(5):
            nops = ST.count(p, lambda s: s[0] in ("D", "C"))
            if p in seen or nops != 2 or ST.count(p, lambda s: s[0] == "B") > 1:
                continue
            if ST.count(p, lambda s: s[0] == "D") != 1:
                continue
            out.append((p, "arg"))
            out.append((p, "arg3"))
    for p in progs:
        uses_c = ST.count(p, lambda s: s[0] in ("D", "C") and "c" in s[1:]) > 0
        out.append((p, "arg"))
        if tier == "quick" and ST.count(p, lambda s: s[0] in ("D", "C")) == 2:
            out.append((p, "arg3"))
        if ST.nfor(p) and ST.count(p, lambda s: s[0] in ("D", "C")) <= 2:
            out += [(p, v) for v in ("cfor64", "cfor44", "cfor84", "cfor173")]
        if tier == "quick" and ST.nif(p):
            # conditionals: plain arguments and the two-alias variant only
            if ST.count(p, lambda s: s[0] in ("D", "C") and "c" in s[1:]) >= 2:
                out.append((p, "sv2"))
            continue
        if uses_c:
            out.append((p, "alloc"))
            if ST.count(p[-1:], lambda s: s[0] in ("D", "C") and "c" in s[1:]) == 0 and ST.count(p[-1:], lambda s: s[0] in ("D", "C")) > 0:
                out.append((p, "alloc_mid"))
            out.append((p, "sv"))
            if ST.count(p, lambda s: s[0] in ("D", "C") and "c" in s[1:]) >= 2:
                out.append((p, "sv2"))
                out.append((p, "sv3"))
    return out


def core_events(mod, args, core, ncores):
    ev = []
    counts = {}

    def bufid(v):
        return v.buf[0] if isinstance(v, View) else v

    def key_of(op):
        ident = op.attributes.get("verif.id")
        t = ident.value.data if ident is not None else -1
        counts[t] = counts.get(t, 0) + 1
        return (t, counts[t])

    def h_copy(it, op):
        s, d = it.get(op.operands[0]), it.get(op.operands[1])
        ev.append(("op", key_of(op), (bufid(s),), (bufid(d),), "copy"))
        return []

    def h_generic(it, op):
        ins = [bufid(it.get(o)) for o in op.inputs]
        outs = [bufid(it.get(o)) for o in op.outputs]
        ev.append(("op", key_of(op), tuple(ins + outs), tuple(outs), "compute"))
        return []

    def h_barrier(it, op):
        ev.append(("barrier",))
        return []

    def h_call(it, op):
        callee = op.callee.string_value()
        if callee == "snax_cluster_core_idx":
            return [core]
        if callee == "snax_cluster_hw_barrier":
            ev.append(("barrier",))
            return []
        raise InterpError("call " + callee)

    def h_dealloc(it, op):
        ev.append(("dealloc", bufid(it.get(op.operands[0]))))
        return []

    h = dict(mem_handlers())
    h.update({"memref.copy": h_copy, "linalg.generic": h_generic, "snax.cluster_sync_op": h_barrier, "func.call": h_call, "memref.dealloc": h_dealloc})

    def h_alloc(it, op):
        return [View(("c", 0), 4, 0, [8], [1], 0x3000)]

    h["memref.alloc"] = h_alloc
    it = Interp(handlers=h, budget=50000)
    it.run_func(find_func(mod, "f"), args)
    return ev, it.steps


def make_args(variant, trips, conds):
    a = View(("a", 0), 4, 0, [8], [1], 0x1000)
    b = View(("b", 0), 4, 0, [8], [1], 0x2000)
    args = [a, b]
    if variant in ("arg", "arg3", "sv3") or variant.startswith("cfor"):
        args.append(View(("c", 0), 4, 0, [8], [1], 0x3000))
    elif variant in ("sv", "sv2"):
        args.append(View(("c", 0), 4, 0, [16], [1], 0x3000))
    return args + list(conds) + list(trips)


def evaluate(case, only=None, tier=None) -> CaseResult:
    tier = tier or _TIER[0]
    prog, variant = case
    r = CaseResult()
    text, nfor, nif = build_text(prog, variant)
    try:
        base = common.parse(text)
        base.verify()
    except Exception as e:
        raise RuntimeError(f"generator bug: {e}\n{text}")
    b = BOUNDS[tier]
    # variant 'arg3': three cores (compute = core 0, DM = core 2, core 1 idle but at every barrier) + snax-to-func
    ncores = 3 if variant == "arg3" else b["cores"]
    out = base.clone()
    pipeline = f"insert-sync-barrier,dispatch-regions{{nb_cores={ncores}}}" + (",snax-to-func" if b["to_func"] or variant in ("alloc_mid", "arg3") else "")
    try:
        common.run_pipeline(out, pipeline)
    except Exception as e:
        r.rejected = "pass:" + type(e).__name__
        r.count("exc:" + type(e).__name__ + ":" + str(e)[:60])
        return r
    out_text = common.to_text(out)
    r.count("barriers_inserted", out_text.count("snax.cluster_sync_op") - text.count("snax.cluster_sync_op"))
    init = {"a": ("init", "a"), "b": ("init", "b"), "c": ("init", "c")}
    obs_all = []
    trip_menu = [0] if variant.startswith("cfor") else b["trips"]
    for trips, conds in itertools.product(itertools.product(trip_menu, repeat=nfor), itertools.product((1, 0), repeat=nif)):
        if only is not None and (list(trips) != only[0] or list(conds) != only[1]):
            continue
        args = make_args(variant, trips, conds)
        ref_events, s0 = core_events(base, args, 0, 1)
        ref = CM.sequential(ref_events, init)
        lists = []
        for c in range(ncores):
            ev, s1 = core_events(out, args, c, ncores)
            lists.append(ev)
            r.transitions += s1
        finals, problems, nstates, ntrans, multi = CM.explore(lists, init)
        r.states += nstates
        r.transitions += ntrans
        r.validated += 1
        r.count("states_with_two_cores_enabled", multi)
        if multi:
            r.count("executions_with_real_concurrency")
        obs_all.append((trips, conds, len(finals), len(problems)))
        key = f"{prog!r}|{variant}|{trips}" + (f"|{conds}" if conds else "")
        case_j = dict(prog=prog, variant=variant, trips=list(trips), conds=list(conds), output_ir=out_text, per_core_events=[[list(map(str, e)) for e in l] for l in lists])
        kinds = set()
        for kind, msg in problems:
            if kind in kinds:
                continue
            kinds.add(kind)
            r.violate(key + "|" + kind, case_j, f"{kind}: {msg}; trips={trips} conds={conds}; program {prog!r} ({variant})")
        bad = [f for f in finals if f != ref]
        if bad and "deadlock" not in kinds:
            f = sorted(bad, key=repr)[0]
            diff = _first_diff(ref, f)
            r.violate(key + "|race", case_j, f"race: {len(finals)} distinct outcomes are reachable; under some interleaving {diff}; trips={trips} conds={conds}; program {prog!r} ({variant})")
    r.nontrivial = any(True for _ in obs_all)
    r.obs = (prog, variant, tuple(obs_all))
    r.sample = dict(program=repr(prog), variant=variant, output_ir=out_text)
    return r


def _first_diff(ref, got):
    robs, gobs = dict(ref[1]), dict(got[1])
    for k in sorted(robs):
        if gobs.get(k) != robs[k]:
            return f"op instance {k} observes {gobs.get(k)} instead of {robs[k]}"
    rm, gm = dict(ref[0]), dict(got[0])
    for k in sorted(rm):
        if gm.get(k) != rm[k]:
            return f"final contents of buffer {k} are {gm.get(k)} instead of {rm[k]}"
    return "outcome differs"


def replay(case):
    return evaluate((ST.from_json(case["prog"]), case["variant"]), only=[list(case["trips"]), list(case.get("conds", []))]).violations
