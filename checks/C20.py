"""C20 — a merged processing element, configured as decoded, computes each kernel.

Shape B (explicit-state search over merge histories). A state is a history of kernel bodies; the transition calls the real
convert_generic_body_to_phs + append_to_abstract_graph; states are deduplicated by the printed abstract PE. In EVERY state, for
each kernel of the history, the real decode_abstract_graph must succeed and the abstract PE evaluated (machines/pe.py) under the
decoded switch values must compute that kernel's function on all inputs of a small box; the number of values must equal
get_true_switches() and the number of phs_switch_i fields of the PHS accelerator; one SNAXPHSAccelerator instance then lowers every kernel of the
history in order (get_switch_values) and the switch constants it emits must configure the PE for that kernel as well.
"""
from __future__ import annotations

import itertools

from mc import common
from mc.driver import CaseResult
from machines import pe as PE
from machines.ir import InterpError, wrap

from xdsl.pattern_rewriter import PatternRewriter

from snaxc.phs.combine import append_to_abstract_graph
from snaxc.phs.decode import MappingNotFoundError, decode_abstract_graph
from snaxc.phs.encode import convert_generic_body_to_phs

PID = "C20"
RULE = (
    "alphabet: kernel bodies with 1-2 integer ops from {addi, subi, muli} (+ andi, xori in thorough) over two data inputs with every routing (swapped operands, "
    "second op consuming the first on either side, an input used twice), and a three-input family; states = merge histories (quick: all of length <= 2 over "
    "the full alphabet and length 3 over a 14-kernel sub-alphabet; thorough: the 5-op alphabet (360 kernels), all histories of length <= 2, length 3-4 over a 14-kernel sub-alphabet), deduplicated by the printed abstract PE; "
    "each state: decode every kernel of its history (directly and through one SNAXPHSAccelerator instance that lowers the whole history in order) and evaluate on {-2,-1,0,1,2,3,7}^n. distinct = distinct abstract PEs; non-trivial = PE has >= 1 true switch"
)
ASSUMPTIONS = [
    "PE semantics of machines/pe.py (choose = case by switch value, mux = rhs iff switch == 1)",
    "kernels merged into one PE use the same number of data inputs (documented precondition of decode)",
    "i32 wrap-around arithmetic",
]
BOUNDS = {"quick": dict(full_len=2, sub_len=3, sub_alphabet=14), "thorough": dict(full_len=2, sub_len=4, sub_alphabet=14)}
CASE_TIMEOUT = 120
BOX = [-2, -1, 0, 1, 2, 3, 7]
OPS = {"addi": lambda a, b: a + b, "subi": lambda a, b: a - b, "muli": lambda a, b: a * b, "andi": lambda a, b: (a & 0xFFFFFFFF) & (b & 0xFFFFFFFF), "xori": lambda a, b: (a & 0xFFFFFFFF) ^ (b & 0xFFFFFFFF)}

_ALPHA = {}


def alphabet(tier, nin=2):
    key = (tier, nin)
    if key in _ALPHA:
        return _ALPHA[key]
    ops = ["addi", "subi", "muli"] + (["andi", "xori"] if tier == "thorough" else [])
    args = [("a", i) for i in range(nin)]
    out = []
    if nin == 2:
        for o in ops:
            out.append(((o, ("a", 0), ("a", 1)),))
            out.append(((o, ("a", 1), ("a", 0)),))
    for o1 in ops:
        for p in args:
            for q in args:
                for o2 in ops:
                    for (u, v) in [(("r", 0), x) for x in args] + [(x, ("r", 0)) for x in args] + [(("r", 0), ("r", 0))]:
                        used = {p, q, u, v}
                        if all(a in used for a in args):
                            out.append(((o1, p, q), (o2, u, v)))
    # simplest first: 1-op kernels, then 2-op kernels ordered by op variety
    _ALPHA[key] = out
    return out


def kernel_fn(k, data):
    vals = {("a", i): d for i, d in enumerate(data)}
    for j, (o, p, q) in enumerate(k):
        vals[("r", j)] = wrap(OPS[o](vals[p], vals[q]), 32)
    return vals[("r", len(k) - 1)]


def kernel_text(k, nin):
    names = {("a", i): f"%a{i}" for i in range(nin)}
    lines = []
    for j, (o, p, q) in enumerate(k):
        names[("r", j)] = f"%r{j}"
        lines.append(f"    %r{j} = arith.{o} {names[p]}, {names[q]} : i32")
    maps = ", ".join(["affine_map<(d0) -> (d0)>"] * (nin + 1))
    ins = ", ".join(f"%m{i}" for i in range(nin))
    ins_t = ", ".join(["memref<8xi32>"] * nin)
    fargs = ", ".join(f"%m{i} : memref<8xi32>" for i in range(nin + 1))
    bargs = ", ".join([f"%a{i} : i32" for i in range(nin)] + ["%out : i32"])
    return (
        "builtin.module {\nfunc.func @f(" + fargs + ") {\n"
        f'  linalg.generic {{indexing_maps = [{maps}], iterator_types = ["parallel"]}} ins({ins} : {ins_t}) outs(%m{nin} : memref<8xi32>) {{\n'
        f"  ^bb0({bargs}):\n" + "\n".join(lines) + f"\n    linalg.yield %r{len(k) - 1} : i32\n  }}\n  func.return\n}}\n}}\n"
    )


def to_pe(k, nin, name="acc"):
    mod = common.parse(kernel_text(k, nin))
    g = None
    for op in mod.walk():
        if op.name == "linalg.generic":
            g = op
    return convert_generic_body_to_phs(g, name, PatternRewriter(g))


def space(tier):
    b = BOUNDS[tier]
    cases = []
    for nin in (2, 3):
        A = alphabet(tier, nin)
        n = len(A)
        full = b["full_len"] if nin == 2 else max(1, b["full_len"] - 1)
        for L in range(1, full + 1):
            for h in itertools.product(range(n), repeat=L):
                cases.append((nin, h))
        sub = list(range(0, n, max(1, n // b["sub_alphabet"])))[: b["sub_alphabet"]]
        for L in range(full + 1, b["sub_len"] + 1 if nin == 2 else full + 2):
            for h in itertools.product(sub, repeat=L):
                cases.append((nin, h))
    return cases


_SEEN_STATES = set()


def evaluate(case) -> CaseResult:
    nin, hist = case
    r = CaseResult()
    A = alphabet(_tier_of(case), nin)
    ks = [A[i] for i in hist]
    key = f"{nin}|{hist}"
    case_j = dict(nin=nin, hist=list(hist), kernels=[repr(k) for k in ks])
    try:
        abstract = to_pe(ks[0], nin)
        for k in ks[1:]:
            append_to_abstract_graph(to_pe(k, nin), abstract)
        abstract.verify()
    except AssertionError as e:
        r.rejected = "merge:AssertionError"
        r.count("merge_rejected:" + str(e)[:60])
        return r
    except NotImplementedError as e:
        r.rejected = "merge:NotImplementedError"
        return r
    except Exception as e:
        r.rejected = "merge:" + type(e).__name__
        r.count("merge_exc:" + type(e).__name__ + ":" + str(e)[:60])
        return r
    text = str(abstract)
    r.obs = text
    ntrue = abstract.get_true_switches()
    r.nontrivial = ntrue >= 1
    r.states = 1
    r.sample = dict(history=[repr(k) for k in ks], abstract_pe=text, true_switches=ntrue)
    # number of switch fields of the PHS accelerator
    acc = None
    try:
        acc = _phs_accelerator(abstract)
        nfields = sum(1 for f in acc.fields if f.startswith("phs_switch_"))
    except Exception as e:
        nfields = None
        r.count("acc_build_failed:" + type(e).__name__)
    if nfields is not None and nfields != ntrue:
        r.violate(key + "|fields", case_j, f"SNAXPHSAccelerator declares {nfields} phs_switch fields but the PE has {ntrue} true switches; history {ks}")
    for j, k in enumerate(ks):
        r.transitions += 1
        try:
            values = list(decode_abstract_graph(abstract, to_pe(k, nin)))
        except (MappingNotFoundError, AssertionError, KeyError) as e:
            r.violate(key + f"|undecodable", case_j, f"kernel #{j} {k} of the history can no longer be decoded against the merged PE: {type(e).__name__}: {str(e)[:100]}; history {ks}")
            continue
        if len(values) != ntrue:
            r.violate(key + "|count", case_j, f"decode of kernel #{j} gives {len(values)} values, get_true_switches() = {ntrue}; history {ks}")
            continue
        bad = None
        for data in itertools.product(BOX, repeat=nin):
            want = kernel_fn(k, data)
            try:
                got = PE.evaluate(abstract, list(data), values)[0]
            except InterpError as e:
                bad = f"merged PE cannot be evaluated with switches {values}: {e}"
                break
            if got != want:
                bad = f"with decoded switches {values} the merged PE computes {got} on inputs {data}, kernel #{j} {k} computes {want}"
                break
        r.validated += 1
        if bad:
            r.violate(key + "|function", case_j, f"{bad}; history {ks}")
            continue
        # the same kernel through the accelerator that lowers every kernel of the history (one SNAXPHSAccelerator instance, kernels in history order):
        # the switch constants it emits must configure the PE for this kernel too
        if acc is not None:
            try:
                g = next(op for op in common.parse(kernel_text(k, nin)).walk() if op.name == "linalg.generic")
                acc_values = [ops[0].value.value.data for ops, _ in acc.get_switch_values(g)]
            except (MappingNotFoundError, AssertionError, KeyError) as e:
                r.violate(key + "|acc-undecodable", case_j, f"SNAXPHSAccelerator.get_switch_values fails for kernel #{j} {k} of the history: {type(e).__name__}; history {ks}")
                continue
            r.transitions += 1
            if acc_values != values:
                bad = None
                if len(acc_values) != ntrue:
                    bad = f"{len(acc_values)} switch constants for {ntrue} true switches"
                else:
                    for data in itertools.product(BOX, repeat=nin):
                        try:
                            got = PE.evaluate(abstract, list(data), acc_values)[0]
                        except InterpError as e:
                            bad = f"the merged PE cannot be evaluated with them: {e}"
                            break
                        if got != kernel_fn(k, data):
                            bad = f"the merged PE computes {got} on inputs {data}, the kernel computes {kernel_fn(k, data)}"
                            break
                if bad:
                    r.violate(key + "|acc-function", case_j, f"SNAXPHSAccelerator.get_switch_values emits switch values {acc_values} for kernel #{j} {k} (lowered after kernels {ks[:j]} by the same accelerator): {bad}; history {ks}")
    return r


_TIER = ["quick"]


def _tier_of(case):
    return _TIER[0]


_orig_space = space


def space(tier):  # noqa: F811
    _TIER[0] = tier
    return _orig_space(tier)


def _phs_accelerator(pe):
    from snaxc.accelerators.snax_phs import SNAXPHSAccelerator

    return SNAXPHSAccelerator(pe, _template_spec(len(pe.data_operands())))


_SPEC = []


def _template_spec(nin=2):
    from xdsl.ir.affine import AffineMap

    from snaxc.phs.template_spec import TemplateSpec

    ident = AffineMap.from_callable(lambda y: (y,))
    return TemplateSpec(input_maps=(ident,) * nin, output_maps=(ident,), template_bounds=(4,))


def replay(case):
    return evaluate((case["nin"], tuple(case["hist"]))).violations
