"""C10 — a tiled-strided layout means the same thing everywhere.

Shape C: every layout of a finite family is pushed through every "view" the repo has of it and compared, on
every index of its (small) box, with the independent mixed-radix evaluator machines/layout.py.
"""
from __future__ import annotations

import itertools
from collections import Counter

from mc import common  # noqa: F401  (installs compat + repo path)
from mc.driver import CaseResult
from mc.space import Concat, Product, Tagged, power
from machines import layout as ref
from machines.ir import Interp

from xdsl.dialects import builtin
from xdsl.dialects.builtin import IndexType, MemRefType, i8, i32
from xdsl.ir import Block
from xdsl.parser import Parser

from snaxc.dialects.tsl import TiledStridedLayoutAttr
from snaxc.ir.tsl import Stride, TiledStride, TiledStridedLayout

PID = "C10"
TITLE = "A tiled-strided layout means the same thing everywhere"
RULE = (
    "all layouts with the listed (rank, depth) shapes, every stride drawn from bound-menu x step-menu (dense, gapped, "
    "overlapping, repeated-step and unit-bound layouts all occur); each evaluated on every index of its box by every view "
    "(affine map, all_values, self_overlaps, is_dense, tile_bounds, print->parse, canonicalize, from_strides, bound/step ops, "
    "common contiguous block, subview pointer arithmetic). distinct = distinct (layout, address table) observations; "
    "non-trivial = layout has >= 2 elements"
)
ASSUMPTIONS = [
    "reference semantics: addr(idx) = sum step*digit with mixed-radix digits over tile bounds (machines/layout.py)",
    "the layout offset is not part of get_affine_map()/all_values() (offset-free convention of the code base); offset is checked "
    "through print/parse here and through its consumers in C05/C11",
    "dynamic entries follow the documented contiguity rule of get_step_ops (largest static step x its bound, then right-to-left, inner-to-outer)",
    "subview pointer arithmetic is checked for tile-aligned dynamic offsets (the documented precondition), all dynamic or mixed with static 0 offsets",
]
BOUNDS = {
    "quick": dict(full_menu_total_strides=3, reduced_menu_total_strides=4, bounds=[1, 2, 3, 4], steps=[1, 2, 3, 4, 6, 8, 12, 16, 24]),
    "thorough": dict(full_menu_total_strides=4, reduced_menu_total_strides=5, bounds=[1, 2, 3, 4], steps=[1, 2, 3, 4, 6, 8, 12, 16, 24],
                     note="4-stride layouts: steps 1..12 (7 values); 5-stride layouts: bounds 1..3 x steps {1,2,6,12}; dynamic layouts with 5 strides: steps {1,4,16}, run-time bounds {1,3}"),
}

B_FULL = [1, 2, 3, 4]
S_FULL = [1, 2, 3, 4, 6, 8, 12, 16, 24]
B_RED = [1, 2, 3]
S_RED = [1, 2, 4, 6, 12]


def compositions(k, maxrank=4, maxdepth=3):
    """all tuples of depths (each 1..maxdepth), length 1..maxrank, summing to k"""
    out = []
    for r in range(1, maxrank + 1):
        for c in itertools.product(range(1, maxdepth + 1), repeat=r):
            if sum(c) == k:
                out.append(c)
    return out


def _static_space(k, bounds, steps):
    strides = [(b, s) for b in bounds for s in steps]
    parts = []
    for comp in compositions(k):
        parts.append(Product([comp], power(strides, k)))
    return Concat(*parts)


def split(comp, flat):
    dims, p = [], 0
    for d in comp:
        dims.append(list(flat[p : p + d]))
        p += d
    return dims


def space(tier):
    parts = []
    kfull = BOUNDS[tier]["full_menu_total_strides"]
    kred = BOUNDS[tier]["reduced_menu_total_strides"]
    for k in range(1, kfull + 1):
        # thorough: the 4-stride layouts use 7 of the 9 steps (28^4 x 7 compositions), so that the tier completes under its time cap
        parts.append(Tagged("static", _static_space(k, B_FULL, S_FULL if (k <= 3 or tier == "quick") else S_FULL[:7])))
    for k in range(kfull + 1, kred + 1):
        parts.append(Tagged("static", _static_space(k, B_RED, S_RED if k <= 4 else [1, 2, 6, 12])))
    # dynamic slice: layouts with a dynamic outermost bound and/or step per dim
    parts.append(Tagged("dynamic", _dynamic_space(tier)))
    parts.append(Tagged("lccb", _lccb_space(tier)))
    parts.append(Tagged("from_strides", _from_strides_space(tier)))
    parts.append(Tagged("offset", _offset_space()))
    parts.append(Tagged("subview", _subview_space(tier)))
    return Concat(*parts)


# ------------------------------------------------------------------------------------------------ helpers


def mk(dims, offset=0):
    return TiledStridedLayout([TiledStride([Stride(s, b) for b, s in d]) for d in dims], offset=offset)


def parse_attr(text):
    return Parser(common.ctx(), text).parse_attribute()


def key_of(kind, payload):
    return f"{kind}:{payload!r}"


# ------------------------------------------------------------------------------------------------ static


def eval_static(r: CaseResult, comp, flat, offset=0):
    dims = split(comp, flat)
    L = mk(dims, offset)
    attr = TiledStridedLayoutAttr(L)
    shp = ref.shape(dims)
    table = [ref.addr(dims, idx) for idx in ref.box(shp)]
    r.obs = (tuple(map(tuple, dims)), tuple(table))
    r.nontrivial = len(table) >= 2
    r.states = len(table)
    bad = []

    # (1) affine map on every index
    amap = attr.get_affine_map()
    for idx, a in zip(ref.box(shp), table):
        got = amap.eval(list(idx), [])[0]
        r.transitions += 1
        if got != a:
            bad.append(f"get_affine_map()({idx}) = {got}, reference {a}")
            break
    # (2) all_values multiset, overlap / density predicates
    av = [int(x) for x in L.all_values()]
    if Counter(av) != Counter(table):
        bad.append(f"all_values() multiset differs from reference: {sorted(av)[:12]} vs {sorted(table)[:12]}")
    dup = len(set(table)) != len(table)
    if bool(L.self_overlaps()) != dup:
        bad.append(f"self_overlaps() = {L.self_overlaps()}, reference has duplicates = {dup}")
    dense = (not dup) and set(table) == set(range(len(table)))
    if bool(L.is_dense()) != dense:
        bad.append(f"is_dense() = {L.is_dense()}, reference dense = {dense}")
    # (3) tile bounds
    if L.tile_bounds() != [[b for b, _ in d] for d in dims]:
        bad.append(f"tile_bounds() = {L.tile_bounds()}")
    # (4) print -> parse
    txt = f"#tsl.tsl<{L}>"
    try:
        back = parse_attr(txt)
        if back != attr or back.data != L or str(back.data) != str(L):
            bad.append(f"print->parse changed the layout: {txt} -> {back}")
    except Exception as e:
        bad.append(f"printed form does not parse: {txt}: {type(e).__name__}: {e}")
    # (5) canonicalize keeps the function (per-dim shape and address of every index), idempotent
    C = L.canonicalize()
    cd = [[(s.bound, s.step) for s in ts.strides] for ts in C.tstrides]
    if ref.shape(cd) != shp:
        bad.append(f"canonicalize() changed the shape {shp} -> {ref.shape(cd)}: {C}")
    else:
        t2 = [ref.addr(cd, idx) for idx in ref.box(shp)]
        if t2 != table:
            bad.append(f"canonicalize() changed the address function: {L} -> {C}")
    if C.canonicalize() != C:
        bad.append(f"canonicalize() not idempotent: {C} -> {C.canonicalize()}")
    if C.offset != L.offset:
        bad.append("canonicalize() changed the offset")
    # (6) static bound/step ops agree with the layout (used by DMA loop nests / allocation)
    bad += _check_ops_static(attr, dims)
    r.validated = 1
    r.sample = dict(kind="static", layout=str(L), shape=shp, addresses=table[:16])
    for b in bad:
        r.violate(key_of("static", (comp, flat, offset)) + "|" + b.split(":")[0].split("(")[0][:40], dict(kind="static", comp=comp, flat=flat, offset=offset), f"{L}: {b}")


def _run_ops(ops, extra_env=None):
    """Execute a flat op list on the IR machine; returns interp (env holds results)."""
    blk = Block()
    it = Interp(handlers=extra_env or {})
    for op in ops:
        if op.parent is None:
            blk.add_op(op)
    for op in blk.ops:
        out = it.exec_op(op)
        assert out is None
    return it


def _check_ops_static(attr, dims):
    bad = []
    # bound ops need "shape" ops; give constants of the true shape
    from xdsl.dialects.arith import ConstantOp

    shp = ref.shape(dims)
    shape_ops = [ConstantOp.from_int_and_width(n, IndexType()) for n in shp]
    ops, bmap = attr.get_bound_ops(list(shape_ops))
    sops, smap = attr.get_step_ops(bmap)
    it = _run_ops(shape_ops + ops + sops)
    for d, dim in enumerate(dims):
        for k, (b, s) in enumerate(dim):
            gb = it.get(bmap[(d, k)].results[0])
            gs = it.get(smap[(d, k)].results[0])
            if gb != b:
                bad.append(f"get_bound_ops: bound[{d},{k}] = {gb}, layout says {b}")
            if gs != s:
                bad.append(f"get_step_ops: step[{d},{k}] = {gs}, layout says {s}")
    if sum(len(d) for d in dims) <= 2:
        bad += _check_steps_in_bytes(attr, [list(d) for d in dims], shp, 4)
    return bad


def _check_steps_in_bytes(attr, inst_dims, shp, elw):
    """the byte-step view used by DMA loop nests and allocation sizes: get_step_ops(..., memref, in_bytes=True) = steps x element size"""
    from xdsl.dialects.arith import ConstantOp
    from xdsl.dialects.builtin import IntegerType

    bad = []
    mty = MemRefType(IntegerType(8 * elw), [(-1 if any(b is None for b, _ in d) else n) for d, n in zip([[(s.bound, s.step) for s in ts.strides] for ts in attr.data.tstrides], shp)], attr)
    blk = Block(arg_types=[mty])
    shape_ops = [ConstantOp.from_int_and_width(n, IndexType()) for n in shp]
    ops, bmap = attr.get_bound_ops(list(shape_ops))
    sops, smap = attr.get_step_ops(bmap, blk.args[0], in_bytes=True)
    it = _run_ops(shape_ops + ops + sops)
    for d, dim in enumerate(inst_dims):
        for k, (b, s) in enumerate(dim):
            gs = it.get(smap[(d, k)].results[0])
            if gs != s * elw:
                bad.append(f"get_step_ops(in_bytes): byte step[{d},{k}] = {gs}, layout step {s} x {elw} bytes = {s * elw}")
    return bad


# ------------------------------------------------------------------------------------------------ dynamic


def _dynamic_space(tier):
    """(comp, flat strides, dyn mask per dim in {none, bound, bound+step}, runtime outer bounds per dim, offset kind)"""
    parts = []
    th = tier == "thorough"
    comps = [(1,), (2,), (1, 1), (2, 1), (1, 2), (2, 2)] + ([(3,), (1, 1, 1), (2, 2, 1), (3, 2)] if th else [])
    for comp in comps:
        k = sum(comp)
        if k <= 2:
            strides_k = [(b, s) for b in [1, 2, 4] for s in [1, 2, 4, 8, 16]]
        elif k == 3:
            strides_k = [(b, s) for b in [1, 2, 4] for s in ([1, 2, 4, 8, 16] if th else [1, 4, 8, 16])]
        elif k == 4:
            strides_k = [(b, s) for b in [2, 4] for s in ([1, 4, 8, 16] if th else [1, 4, 8])]
        else:
            strides_k = [(b, s) for b in [2, 4] for s in [1, 4, 16]]
        masks = [m for m in itertools.product([0, 1, 2], repeat=len(comp)) if any(m)]
        rts = [1, 2, 3] if ((th and k <= 4) or len(comp) == 1) else [1, 3]
        rt = list(itertools.product(rts, repeat=len(comp)))
        parts.append(Product([comp], power(strides_k, k), masks, rt, [0, None] if k <= 2 else [0]))
    return Concat(*parts)


def doc_rule_steps(dims_dyn, static_bounds):
    """Reference for the documented contiguity rule. dims_dyn: dims with (bound, step) where step may be None,
    bounds already instantiated. Returns dims with all steps concrete."""
    # largest static step; default = rightmost stride if everything is dynamic
    max_key = (len(dims_dyn) - 1, len(dims_dyn[-1]) - 1)
    max_val = 0
    # documented rule: the static stride that reaches the furthest (step * bound; a dynamic bound counts as 1)
    max_ext = 0
    for d, dim in enumerate(dims_dyn):
        for k, (b, s) in enumerate(dim):
            sb = static_bounds[d][k] or 1
            if s is not None and s * sb > max_ext:
                max_key, max_val, max_ext = (d, k), s, s * sb
    cur = dims_dyn[max_key[0]][max_key[1]][0] * max_val
    out = [list(d) for d in dims_dyn]
    for d in reversed(range(len(dims_dyn))):
        for k in reversed(range(len(dims_dyn[d]))):
            b, s = dims_dyn[d][k]
            if s is None:
                out[d][k] = (b, cur)
                cur = cur * b
    return out


def eval_dynamic(r: CaseResult, comp, flat, mask, rt, offset):
    dims = split(comp, flat)
    # build the dynamic layout: outermost stride of masked dims gets bound None (mask>=1) and step None (mask==2)
    dyn = []
    inst = []
    for d, (dim, m, n) in enumerate(zip(dims, mask, rt)):
        dd = list(dim)
        ii = list(dim)
        if m >= 1:
            b0, s0 = dim[0]
            dd[0] = (None, None if m == 2 else s0)
            ii[0] = (n, None if m == 2 else s0)
        dyn.append(dd)
        inst.append(ii)
    L = mk(dyn, offset)
    attr = TiledStridedLayoutAttr(L)
    bad = []
    # print -> parse (dynamic entries and offset)
    txt = f"#tsl.tsl<{L}>"
    try:
        back = parse_attr(txt)
        if back != attr or back.data != L:
            bad.append(f"print->parse changed the layout: {txt} -> {back}")
    except Exception as e:
        bad.append(f"printed form does not parse: {txt}: {type(e).__name__}: {str(e)[:120]}")
    if not L.is_dynamic():
        bad.append("is_dynamic() false on a dynamic layout")
    if L.tile_bounds() != [[b for b, _ in d] for d in dyn]:
        bad.append(f"tile_bounds() = {L.tile_bounds()}")
    C = L.canonicalize()
    if C.canonicalize() != C:
        bad.append(f"canonicalize() not idempotent on dynamic layout: {C}")
    # run-time shape = product of instantiated bounds
    from xdsl.dialects.arith import ConstantOp

    shp = ref.shape([[(b, 1) for b, _ in d] for d in inst])
    shape_ops = [ConstantOp.from_int_and_width(n, IndexType()) for n in shp]
    ops, bmap = attr.get_bound_ops(list(shape_ops))
    sops, smap = attr.get_step_ops(bmap)
    it = _run_ops(shape_ops + ops + sops)
    want = doc_rule_steps(inst, [[b for b, _ in d] for d in dyn])
    got_dims = []
    for d, dim in enumerate(want):
        gd = []
        for k, (b, s) in enumerate(dim):
            gb = it.get(bmap[(d, k)].results[0])
            gs = it.get(smap[(d, k)].results[0])
            gd.append((gb, gs))
            if gb != b:
                bad.append(f"get_bound_ops: run-time bound[{d},{k}] = {gb}, shape {shp} implies {b}")
            if gs != s:
                bad.append(f"get_step_ops: run-time step[{d},{k}] = {gs}, contiguity rule gives {s}")
        got_dims.append(gd)
    if not bad:
        bad += _check_steps_in_bytes(attr, [list(d) for d in want], shp, 4)
    # canonicalize() on a dynamic layout: compared on what is static — per-dimension shape factors, the dynamic
    # pattern, and the address contribution of every static stride. (The run-time value of a dynamic step is defined
    # by the contiguity rule on the *representation*; canonicalize() is applied to static layouts only in the tree, so
    # instantiated dynamic steps are not compared across it. See DESIGN.md, false alarm FA1.)
    cd = [[(s.bound, s.step) for s in ts.strides] for ts in C.tstrides]
    for d, (a, b) in enumerate(zip(dyn, cd)):
        sa = [(bb, ss) for bb, ss in a if bb is not None and ss is not None]
        sb = [(bb, ss) for bb, ss in b if bb is not None and ss is not None]
        da_ = [(bb, ss) for bb, ss in a if bb is None or ss is None]
        db_ = [(bb, ss) for bb, ss in b if bb is None or ss is None]
        if da_ != db_:
            bad.append(f"canonicalize() changed the dynamic strides of dim {d}: {L} -> {C}")
        elif ref.shape([sa]) != ref.shape([sb]):
            bad.append(f"canonicalize() changed the static shape factor of dim {d}: {L} -> {C}")
        else:
            n = ref.shape([sa])[0]
            r.transitions += n
            if [ref.addr([sa], (i,)) for i in range(n)] != [ref.addr([sb], (i,)) for i in range(n)]:
                bad.append(f"canonicalize() changed the static address contribution of dim {d}: {L} -> {C}")
    try:
        table = tuple(ref.addr(got_dims, idx) for idx in ref.box(shp))
    except (ZeroDivisionError, TypeError, IndexError):
        # the bounds the implementation computed at run time are not a layout at all (a zero or missing bound)
        table = ()
        bad.append(f"get_bound_ops / get_step_ops: the run-time bounds and steps {got_dims} do not describe a layout for shape {shp}")
    r.count("dynamic_instantiations_injective", int(len(set(table)) == len(table)))
    r.obs = ("dyn", str(L), shp, table)
    r.states = len(table)
    r.validated = 1
    r.sample = dict(kind="dynamic", layout=str(L), runtime_shape=shp, instantiated=[list(map(list, d)) for d in got_dims])
    for b in bad:
        r.violate(key_of("dynamic", (comp, flat, mask, rt, offset)) + "|" + b.split(":")[0][:40], dict(kind="dynamic", comp=comp, flat=flat, mask=mask, rt=rt, offset=offset), f"{L} @shape {shp}: {b}")


# ------------------------------------------------------------------------------------------------ offset print/parse


def _offset_space():
    strides = [(b, s) for b in [1, 2, 4] for s in [1, 4, 16]]
    return Product([(1,), (2,), (1, 1), (2, 2)], [0, 1, 3, 64, -4, None], [0, 1, 2, 3, 4, 5, 6, 7, 8])


def eval_offset(r, comp, offset, variant):
    strides = [(b, s) for b in [1, 2, 4] for s in [1, 4, 16]]
    k = sum(comp)
    flat = [strides[(variant + 2 * i) % len(strides)] for i in range(k)]
    dims = split(comp, flat)
    L = mk(dims, offset)
    attr = TiledStridedLayoutAttr(L)
    txt = f"#tsl.tsl<{L}>"
    r.obs = ("offset", txt)
    r.states = 1
    r.validated = 1
    r.sample = dict(kind="offset", text=txt)
    try:
        back = parse_attr(txt)
        ok = back == attr and back.data == L and back.data.offset == offset
        if not ok:
            r.violate(key_of("offset", (comp, offset, variant)), dict(kind="offset", comp=comp, offset=offset, variant=variant), f"print->parse changed {txt} -> {back}")
    except Exception as e:
        r.violate(key_of("offset", (comp, offset, variant)), dict(kind="offset", comp=comp, offset=offset, variant=variant), f"printed form does not parse: {txt}: {type(e).__name__}: {str(e)[:120]}")
    # also as part of a memref type
    mt = f"memref<{'x'.join(str(n) for n in ref.shape(dims))}xi8, {txt}>"
    try:
        t = Parser(common.ctx(), mt).parse_type()
        if t.layout != attr:
            r.violate(key_of("offset-memref", (comp, offset, variant)), dict(kind="offset", comp=comp, offset=offset, variant=variant), f"memref type round trip changed layout: {mt} -> {t}")
    except Exception as e:
        r.violate(key_of("offset-memref", (comp, offset, variant)), dict(kind="offset", comp=comp, offset=offset, variant=variant), f"memref type with printed layout does not parse: {mt}: {type(e).__name__}: {str(e)[:120]}")


# ------------------------------------------------------------------------------------------------ from_strides


def _from_strides_space(tier):
    parts = []
    tb = [[1], [2], [3], [4], [2, 2], [2, 3], [3, 2], [4, 2], [1, 4], [2, 1], [2, 2, 2], [2, 3, 2]]
    st = [1, 2, 3, 4, 8, 16]
    parts.append(Product(tb, st))
    parts.append(Product(tb, st, tb, st))
    if tier == "thorough":
        parts.append(Product(tb[:8], st[:4], tb[:8], st[:4], tb[:6], st[:4]))
    return Concat(*parts)


def eval_from_strides(r, *args):
    tbs = [list(a) for a in args[0::2]]
    sts = list(args[1::2])
    L = TiledStridedLayout.from_strides(list(sts), [list(t) for t in tbs])
    shp = [ref.shape([[(b, 1) for b in t]])[0] for t in tbs]
    got = [[(s.bound, s.step) for s in ts.strides] for ts in L.tstrides]
    table = []
    bad = None
    for idx in ref.box(shp):
        a = ref.addr(got, idx)
        w = ref.strided_addr(sts, idx)
        table.append(a)
        r.transitions += 1
        if a != w and bad is None:
            bad = f"from_strides({sts},{tbs}) = {L}: index {idx} -> {a}, plain strides give {w}"
    if L.tile_bounds() != tbs and bad is None:
        bad = f"from_strides({sts},{tbs}).tile_bounds() = {L.tile_bounds()}"
    r.obs = ("fs", tuple(sts), tuple(map(tuple, tbs)), tuple(table))
    r.states = len(table)
    r.validated = 1
    r.sample = dict(kind="from_strides", strides=sts, tile_bounds=tbs, layout=str(L))
    if bad:
        r.violate(key_of("from_strides", args), dict(kind="from_strides", args=args), bad)
    # dynamic stride variant: None stride must propagate as dynamic (never as a number)
    Ld = TiledStridedLayout.from_strides([None] + list(sts[1:]), [list(t) for t in tbs])
    if any(s.step is not None for s in Ld.tstrides[0].strides):
        r.violate(key_of("from_strides_dyn", args), dict(kind="from_strides", args=args), f"from_strides with dynamic stride produced static steps: {Ld}")


# ------------------------------------------------------------------------------------------------ LCCB


def _lccb_space(tier):
    """pairs of layouts with equal tile bounds; steps for each side drawn independently from a menu, so equal steps in
    different dims, unit bounds, non-contiguous and single-element common blocks all occur."""
    parts = []
    th = tier == "thorough"
    for comp in [(1,), (2,), (1, 1), (2, 1), (1, 2)] + ([(2, 2), (1, 1, 1)] if th else []):
        k = sum(comp)
        bmenu = [1, 2, 3] if k <= 2 else [1, 2]
        smenu = [1, 2, 3, 4, 6, 8] if (k <= 2 or (th and k == 3)) else [1, 2, 4, 8]
        parts.append(Product([comp], power(bmenu, k), power(smenu, k), power(smenu, k), [1, 2]))
    return Concat(*parts)


def eval_lccb(r, comp, bounds, steps_a, steps_b, elw):
    # steps are in bytes here: scale so that element width divides
    da = split(comp, [(b, s * elw) for b, s in zip(bounds, steps_a)])
    db = split(comp, [(b, s * elw) for b, s in zip(bounds, steps_b)])
    A, B = mk(da), mk(db)
    blk = A.largest_common_contiguous_block(B, elw)
    r.obs = ("lccb", str(A), str(B), elw, tuple((s.bound, s.step) for s in blk))
    r.states = 1
    r.validated = 1
    r.sample = dict(kind="lccb", a=str(A), b=str(B), starting_stride=elw, block=[str(s) for s in blk])
    bad = None
    # (i) the block is a contiguous byte run: steps are elw, elw*b0, elw*b0*b1 ...
    cur = elw
    n_el = 1
    for s in blk:
        if s.step != cur and not (blk == [Stride(elw, 1)]):
            bad = f"block {list(map(str, blk))} is not contiguous from stride {elw}"
            break
        cur = s.step * s.bound
        n_el *= s.bound
    # (ii) shared and identically positioned: the set of logical indices whose address (in A) lies in
    #      [0, n_el*elw) must be the same index set in B with the same relative address
    if bad is None:
        shp = ref.shape(da)
        size = n_el * elw
        ia = {idx: ref.addr(da, idx) for idx in ref.box(shp)}
        ib = {idx: ref.addr(db, idx) for idx in ref.box(shp)}
        r.transitions += len(ia)
        # indices of the block: combos of the block strides — identify by (dim,depth) = strides of A matching in order
        # semantic statement: for every base index whose block-digits are zero, the elements obtained by varying the
        # block digits occupy base..base+size contiguous in both layouts, in the same order.
        blk_pos = _block_positions(da, blk, elw)
        if blk_pos is None:
            bad = f"block {list(map(str, blk))} does not consist of strides of the first layout"
        else:
            offs_a, offs_b = [], []
            for digs in itertools.product(*[range(da[d][k][0]) for d, k in blk_pos]):
                oa = sum(da[d][k][1] * g for (d, k), g in zip(blk_pos, digs))
                ob = sum(db[d][k][1] * g for (d, k), g in zip(blk_pos, digs))
                offs_a.append(oa)
                offs_b.append(ob)
            if offs_a != offs_b:
                bad = f"block elements sit at different relative positions in the two layouts: {offs_a[:8]} vs {offs_b[:8]}"
            elif sorted(offs_a) != list(range(0, size, elw)):
                bad = f"block elements do not form one contiguous run of {size} bytes: {sorted(offs_a)[:8]}"
    if bad:
        r.violate(key_of("lccb", (comp, bounds, steps_a, steps_b, elw)), dict(kind="lccb", comp=comp, bounds=bounds, steps_a=steps_a, steps_b=steps_b, elw=elw), f"LCCB({A} ; {B} ; {elw}): {bad}")


def _block_positions(da, blk, elw):
    """locate each block stride as a distinct (dim, depth) of layout A (first match in iteration order, as strides equal by value)"""
    if len(blk) == 1 and blk[0].bound == 1:
        return []
    used, out = set(), []
    for s in blk:
        hit = None
        for d, dim in enumerate(da):
            for k, (b, st) in enumerate(dim):
                if (d, k) not in used and b == s.bound and st == s.step:
                    hit = (d, k)
                    break
            if hit:
                break
        if hit is None:
            return None
        used.add(hit)
        out.append(hit)
    return out


# ------------------------------------------------------------------------------------------------ subview pointer arithmetic


def _subview_space(tier):
    strides = [(b, s) for b in [1, 2, 4] for s in [1, 4, 8, 32]]
    parts = [
        Product([(2,)], power(strides, 2), [1, 4], [(0,), (1,), (2,), (3,)]),
        Product([(1, 1)], power(strides, 2), [1, 4], [(0, 0), (1, 0), (1, 2), (3, 1)]),
        Product([(2, 2)], power([(2, 1), (2, 8), (4, 2), (2, 32), (4, 64)], 4), [1, 2], [(0, 0), (1, 0), (1, 1), (2, 3)]),
    ]
    # mixed static (0) / dynamic offsets: the dynamic operands are fewer than the dimensions, each belongs to its own dimension
    for static in [(True, False), (False, True)]:
        parts.append(Product([(1, 1)], power(strides, 2), [1, 4], [(0, 0), (1, 0), (1, 2), (3, 1)], [static]))
        parts.append(Product([(2, 2)], power([(2, 1), (2, 8), (4, 2), (2, 32), (4, 64)], 4), [1, 2], [(1, 1), (2, 3)], [static]))
    return Concat(*parts)


def eval_subview(r, comp, flat, elbytes, tile_idx, static=()):
    """memref.subview with dynamic, tile-aligned offsets on a TSL memref; extract_aligned_pointer_as_index of the
    subview after convert-memref-to-arith must be base + addr(offset)*elbytes."""
    dims = split(comp, flat)
    static = tuple(static) or (False,) * len(dims)
    tile_idx = tuple(0 if st else t for t, st in zip(tile_idx, static))
    # outer bound must allow tile index: make outer bound large enough by multiplying (keep steps)
    dims = [[(max(d[0][0], t + 1), d[0][1])] + list(d[1:]) for d, t in zip(dims, tile_idx)]
    L = mk(dims)
    shp = ref.shape(dims)
    inner = [ref.shape([d[1:]])[0] if len(d) > 1 else 1 for d in dims]
    offs = [t * i for t, i in zip(tile_idx, inner)]
    el = {1: "i8", 2: "i16", 4: "i32"}[elbytes]
    rank = len(dims)
    mty = f"memref<{'x'.join(map(str, shp))}x{el}, #tsl.tsl<{L}>>"
    sizes = [i for i in inner]
    rty = f"memref<{'x'.join(map(str, sizes))}x{el}, strided<[{', '.join(['?'] * rank)}], offset: ?>>"
    args = ", ".join(f"%o{i} : index" for i in range(rank) if not static[i])
    text = f"""
func.func @f(%m : {mty}, {args}) -> index {{
  %sv = memref.subview %m[{', '.join('0' if static[i] else f'%o{i}' for i in range(rank))}] [{', '.join(map(str, sizes))}] [{', '.join(['1'] * rank)}] : {mty} to {rty}
  %p = "memref.extract_aligned_pointer_as_index"(%sv) : ({rty}) -> index
  func.return %p : index
}}
"""
    key = key_of("subview", (comp, flat, elbytes, tile_idx) + ((static,) if any(static) else ()))
    case = dict(kind="subview", comp=comp, flat=flat, elbytes=elbytes, tile_idx=tile_idx, static=static)
    try:
        mod = common.compile_text(text, "convert-memref-to-arith")
    except common.Rejected as e:
        r.rejected = e.kind
        return
    BASE = 0x1000

    def h_ptr(it, op):
        return [BASE]

    it = Interp(handlers={"memref.extract_aligned_pointer_as_index": h_ptr, "memref.subview": lambda it, op: [None]})
    f = None
    for op in mod.walk():
        if op.name == "func.func":
            f = op
    term, vals = it.run_func(f, [None] + [o for o, st in zip(offs, static) if not st])
    want = BASE + ref.addr(dims, offs) * elbytes
    r.obs = ("subview", str(L), elbytes, tuple(offs), vals[0])
    r.states = 1
    r.transitions = it.steps
    r.validated = 1
    r.sample = dict(kind="subview", layout=str(L), offsets=offs, elbytes=elbytes, pointer=vals[0] - BASE)
    if vals[0] != want:
        r.violate(key, case, f"subview pointer for offsets {offs} of {mty}: got base+{vals[0]-BASE}, layout says base+{want-BASE}")


# ------------------------------------------------------------------------------------------------ dispatch


def evaluate(case) -> CaseResult:
    kind, p = case
    r = CaseResult()
    if kind == "static":
        comp, flat = p
        eval_static(r, comp, flat)
    elif kind == "dynamic":
        eval_dynamic(r, *p)
    elif kind == "offset":
        eval_offset(r, *p)
    elif kind == "from_strides":
        eval_from_strides(r, *p)
    elif kind == "lccb":
        eval_lccb(r, *p)
    elif kind == "subview":
        eval_subview(r, *p)
    r.count(f"cases_{kind}")
    return r


def _tup(x):
    return tuple(_tup(i) for i in x) if isinstance(x, list) else x


def replay(case):
    kind = case["kind"]
    r = CaseResult()
    if kind == "static":
        eval_static(r, _tup(case["comp"]), _tup(case["flat"]), case.get("offset", 0))
    elif kind == "dynamic":
        eval_dynamic(r, _tup(case["comp"]), _tup(case["flat"]), _tup(case["mask"]), _tup(case["rt"]), case["offset"])
    elif kind == "offset":
        eval_offset(r, _tup(case["comp"]), case["offset"], case["variant"])
    elif kind == "from_strides":
        eval_from_strides(r, *_tup(case["args"]))
    elif kind == "lccb":
        eval_lccb(r, _tup(case["comp"]), _tup(case["bounds"]), _tup(case["steps_a"]), _tup(case["steps_b"]), case["elw"])
    elif kind == "subview":
        eval_subview(r, _tup(case["comp"]), _tup(case["flat"]), case["elbytes"], _tup(case["tile_idx"]), _tup(case.get("static", ())))
    return r.violations
