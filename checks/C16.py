"""C16 — returned schedules fit the accelerator template (see checks/sched_common.py)."""
from checks import sched_common as S

PID = "C16"
RULE = (
    "same schedule x template x extra-check enumeration as C03, every schedule yielded by scheduler_backtrack; oracle per result: inner dims span exactly the "
    "template's index subspace per operand (exact rational row-space equality, broadcast-row rule), inner bounds <= template bounds, every requested "
    "constraint re-evaluated by an independent implementation, scheduler(schedule_idx=k) = k-th result; plus TemplatePattern.matches against exact row-space "
    "equality for all pairs of small integer matrices; plus the dart-scheduler PASS itself on convolution-like snax_gemmx operations (i8 x i8 -> i32, x[oh+kh, ow+kw, c] * w[f, kh, kw, c], every loop order with oh outermost (thorough: all 720) x 4 (7) kernel/channel size vectors): the schedule the pass returns must fit the template, be pure output stationary and respect the 8-byte access granularity for 1/1/4-byte elements. distinct = distinct cases; non-trivial = at least one schedule returned / matcher said True"
)
ASSUMPTIONS = [
    "'addresses the operand the way the template does' = same index subspace (row space over Q) of the inner dims, the rule the matcher documents",
    "constraint semantics re-implemented from the docstrings of is_pure_output_stationary / is_memory_flexible_enough",
]
BOUNDS = {"quick": dict(entries=[0, 1, 2], bounds=S.BOUNDS_MENU), "thorough": dict(entries=[0, 1, 2, 3], bounds=S.BOUNDS_MENU)}
CASE_TIMEOUT = 60


def space(tier):
    return S.space(tier)


def evaluate(case):
    if case[0] == "elem":
        r = S.CaseResult()
        r.nontrivial = False
        r.count("cases_skipped_elem")
        return r
    return S.evaluate(case, {"C16"})


def replay(case):
    return S.replay(case, {"C16"})
