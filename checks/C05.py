"""C05 — DMA lowering of a copy moves every element to its layout position.

Shape A: every (shape, element width, source layout, destination layout) of a finite family -> real snax-copy-to-dma; the emitted
code (arith / memref queries / scf.for / DMA calls) is executed on the IR machine over a flat byte memory. Source bytes hold unique
tokens, everything else is poison. Every destination element byte must hold the token of the same logical element's byte in the
source, at the address the destination layout (independent evaluator machines/layout.py) assigns; every byte read lies in the
source footprint, every byte written in the destination footprint.
"""
from __future__ import annotations

import itertools

from mc import common
from mc.driver import CaseResult
from machines import layout as ref
from machines.bytesm import POISON, ByteMemory
from machines.ir import Interp, InterpError, StepBudget, UseBeforeDef, find_func
from machines.memview import View, handlers as mem_handlers

PID = "C05"
RULE = (
    "rank 1-2 (thorough: 3), every shape over {1,2,3,4,6} with <= 48 elements, element widths {1,4} bytes (thorough 1,2,4,8) plus the integer types i1 and i12 (thorough: i4 too; one resp. two bytes per element) on the first four plain layouts and every TSL pair; source and destination layouts "
    "independently from a menu: none, explicit row-major / column-major / padded strides, static offsets, dynamic offset, tiled-strided with every "
    "2-level factorisation of each dim and several stride orders, with gaps, with unit bounds; TSL-TSL pairs restricted to equal tile bounds (the "
    "documented precondition); dynamic outermost dims resolved at run time. distinct = distinct (types, byte image); non-trivial = layouts differ"
)
ASSUMPTIONS = [
    "DMA semantics of machines/bytesm.py (from runtime/include/snax_rt.h); layout semantics of machines/layout.py",
    "a memref with a strided layout and dynamic offset is given a concrete run-time offset by the harness",
    "TSL-to-TSL copies have equal tile bounds (precondition stated in the pass)",
]
BOUNDS = {"quick": dict(rank=2, max_elems=48, widths=[1, 4], odd_widths=[101, 102]), "thorough": dict(rank=3, max_elems=64, widths=[1, 2, 4, 8], odd_widths=[101, 201, 102])}
CASE_TIMEOUT = 60
DIMS = [1, 2, 3, 4, 6]
SRC_BASE, DST_BASE = 0x10000, 0x40000


def factorizations(n):
    return [(a, n // a) for a in range(1, n + 1) if n % a == 0]


def layouts_for(shape, role, tier):
    """menu of layouts: each = dict(kind, text (layout attr text or None), dims (reference spec in elements), offset, dyn_offset)"""
    out = []
    rank = len(shape)
    rowmajor = []
    acc = 1
    for n in reversed(shape):
        rowmajor.insert(0, acc)
        acc *= n
    out.append(dict(kind="none", text=None, dims=[[(n, s)] for n, s in zip(shape, rowmajor)], offset=0))
    stride_sets = {tuple(rowmajor)}
    if rank == 2:
        stride_sets.add((1, shape[0]))  # column major
        stride_sets.add((shape[1] + 2, 1))  # padded rows
        stride_sets.add((1, shape[0] + 1))  # padded columns
        stride_sets.add((2 * shape[1], 2))  # element gaps
    elif rank == 1:
        stride_sets.add((2,))
        stride_sets.add((3,))
    else:
        stride_sets.add((1, shape[0], shape[0] * shape[1]))
        stride_sets.add((shape[1] * shape[2] + 3, shape[2], 1))
    for st in sorted(stride_sets):
        for off in (0, 5, "?"):
            if st == tuple(rowmajor) and off == 0:
                continue
            otext = "" if off == 0 else f", offset: {off}"
            out.append(dict(kind="strided", text=f"strided<[{', '.join(map(str, st))}]{otext}>", dims=[[(n, s)] for n, s in zip(shape, st)], offset=7 if off == "?" else off, strides=list(st), dyn_offset=off == "?"))
    # run-time strides: the type says '?', the value comes from the memref descriptor
    dyn = []
    if rank == 2:
        dyn = [((shape[1] + 2, 1), (True, False)), ((1, shape[0] + 1), (False, True)), ((2 * shape[1], 2), (True, True))]
    elif rank == 1:
        dyn = [((3,), (True,))]
    elif rank == 3:
        dyn = [((shape[1] * shape[2] + 3, shape[2], 1), (True, False, False))]
    for st, mask in dyn:
        stt = ", ".join("?" if m else str(x) for x, m in zip(st, mask))
        out.append(dict(kind="strided", text=f"strided<[{stt}], offset: ?>", dims=[[(n, x)] for n, x in zip(shape, st)], offset=7, strides=list(st), dyn_offset=True, dyn_stride=True))
    return out


def tsl_pairs(shape, tier):
    """(src dims, dst dims) with equal tile bounds: for every 2-level factorisation per dim, dense packings in several stride orders, gaps"""
    out = []
    rank = len(shape)
    facts = [factorizations(n) for n in shape]
    for fs in itertools.product(*facts):
        bounds = [b for f in fs for b in f]  # flat list of tile bounds (dim-major, outer first)
        k = len(bounds)
        orders = list(itertools.permutations(range(k)))
        if k > 3:
            # thin: identity, reversed, and rotations
            orders = [orders[0], orders[-1]] + [tuple((i + r) % k for i in range(k)) for r in range(1, k)] + [(1, 0, 3, 2), (2, 3, 0, 1), (0, 2, 1, 3)]
            orders = list(dict.fromkeys(orders))
        packs = []
        for order in orders:
            # order[j] = position j in increasing-stride order
            steps = [0] * k
            acc = 1
            for pos in order:
                steps[pos] = acc
                acc *= bounds[pos]
            packs.append(steps)
            gap = [s * 2 for s in steps]
            packs.append(gap)
        packs = [list(x) for x in dict.fromkeys(tuple(p) for p in packs)]
        specs = []
        for steps in packs:
            dims, p = [], 0
            for f in fs:
                dims.append([(f[0], steps[p]), (f[1], steps[p + 1])])
                p += 2
            specs.append(dims)
        lim = 6 if tier == "quick" else 12
        specs = specs[:lim]
        for a in specs:
            for b_ in specs:
                out.append((a, b_))
    return out


def _dyn_ok(dims):
    b0, s0 = dims[0][0]
    total = 1
    for d in dims:
        for b, _ in d:
            total *= b
    others = [s for d in dims for (_, s) in d][1:]
    return b0 > 1 and s0 * b0 == total and all(s0 > s for s in others)


def tsl_text(dims, offset=0, dyn0=False):
    parts = []
    for k, d in enumerate(dims):
        if dyn0 and k == 0:
            parts.append("[" + ", ".join(["?"] + [str(b) for b, _ in d[1:]]) + "] -> (" + ", ".join(["?"] + [str(s) for _, s in d[1:]]) + ")")
            continue
        parts.append("[" + ", ".join(str(b) for b, _ in d) + "] -> (" + ", ".join(str(s) for _, s in d) + ")")
    t = ", ".join(parts)
    if offset:
        t += f", offset: {offset}"
    return f"#tsl.tsl<{t}>"


_TIER = ["quick"]


def space(tier):
    _TIER[0] = tier
    b = BOUNDS[tier]
    cases = []
    shapes = []
    for r in range(1, b["rank"] + 1):
        for sh in itertools.product(DIMS, repeat=r):
            n = 1
            for x in sh:
                n *= x
            if n <= b["max_elems"] and (r < 3 or max(sh) <= 3):
                shapes.append(sh)
    for sh in shapes:
        menu = layouts_for(sh, "x", tier)
        for w in b["widths"]:
            # plain x plain
            for a in range(len(menu)):
                for c in range(len(menu)):
                    cases.append(("plain", sh, w, a, c, 0))
            # TSL x TSL (equal tile bounds), TSL x plain, plain x TSL
            pairs = tsl_pairs(sh, tier)
            for i in range(len(pairs)):
                cases.append(("tsl", sh, w, i, -1, 0))
            tsl_singles = sorted({repr(p[0]): p[0] for p in pairs}.items())
            for i in range(len(tsl_singles)):
                for c in range(len(menu)):
                    if c % 2 and not menu[c].get("dyn_stride"):
                        continue
                    cases.append(("tsl-plain", sh, w, i, c, 0))
                    cases.append(("plain-tsl", sh, w, i, c, 0))
        # element types whose bit width is not a multiple of 8: plain x plain over the first layouts, every TSL pair
        for wc in b["odd_widths"]:
            for a in range(min(4, len(menu))):
                for c in range(min(4, len(menu))):
                    cases.append(("plain", sh, wc, a, c, 0))
            for i in range(len(tsl_pairs(sh, tier))):
                cases.append(("tsl", sh, wc, i, -1, 0))
        # dynamic TSL: outermost tile of dim 0 dynamic (bound and step '?') on both sides, for the pairs whose dim-0 outer stride is
        # the slowest-varying dense stride (so that the documented contiguity rule instantiates exactly that layout)
        pairs = tsl_pairs(sh, tier)
        for i, (a, b_) in enumerate(pairs):
            if _dyn_ok(a) and _dyn_ok(b_):
                for w in b["widths"]:
                    cases.append(("tsl-dyn", sh, w, i, -1, 1))
        # dynamic outermost dim for the plain menu (row-major-like only keeps the type valid)
        if len(sh) >= 1:
            for a in (0,):
                for c in range(len(menu)):
                    cases.append(("plain", sh, b["widths"][0], a, c, 1))
                    cases.append(("plain", sh, b["widths"][-1], c, a, 1))
    return cases


# element width codes: the byte size is code % 100; codes >= 100 name integer types whose bit width is not a multiple of 8 (an i1 or
# i4 element occupies one byte, an i12 element two, as in the memref lowering the run-time expects)
ELT = {1: "i8", 2: "i16", 4: "i32", 8: "i64", 101: "i1", 201: "i4", 102: "i12"}


def mtype(shape, w, layout_text, dyn0=False):
    el = ELT[w]
    dims = "x".join(("?" if (dyn0 and i == 0) else str(n)) for i, n in enumerate(shape))
    return f"memref<{dims}x{el}" + (f", {layout_text}" if layout_text else "") + ">"


def resolve(case, tier=None):
    tier = tier or _TIER[0]
    kind, sh, w, i, j, dyn0 = case
    if kind == "plain":
        menu = layouts_for(sh, "x", tier)
        return menu[i], menu[j]
    pairs = tsl_pairs(sh, tier)
    if kind == "tsl-dyn":
        a, b_ = pairs[i]
        return dict(kind="tsl", text=tsl_text(a, dyn0=True), dims=a, offset=0), dict(kind="tsl", text=tsl_text(b_, dyn0=True), dims=b_, offset=0)
    if kind == "tsl":
        a, b_ = pairs[i]
        return dict(kind="tsl", text=tsl_text(a), dims=a, offset=0), dict(kind="tsl", text=tsl_text(b_), dims=b_, offset=0)
    singles = sorted({repr(p[0]): p[0] for p in pairs}.items())
    t = singles[i][1]
    tl = dict(kind="tsl", text=tsl_text(t), dims=t, offset=0)
    menu = layouts_for(sh, "x", tier)
    return (tl, menu[j]) if kind == "tsl-plain" else (menu[j], tl)


def make_view(name, base, shape, w, lay):
    if lay["kind"] == "strided":
        return View((name, 0), w, lay["offset"], list(shape), list(lay["strides"]), base)
    if lay["kind"] == "none":
        return View.fresh(name, list(shape), w, base=base)
    # TSL: strides unknown to metadata ops (never queried for TSL types)
    return View((name, 0), w, 0, list(shape), [0] * len(shape), base)


def evaluate(case, tier=None) -> CaseResult:
    tier = tier or _TIER[0]
    r = CaseResult()
    kind, sh, wcode, i, j, dyn0 = case
    w = wcode % 100
    src, dst = resolve(case, tier)
    if dyn0 and (src["kind"] == "strided" and src["strides"][0] != ref.shape([[(n, 1)] for n in sh]) and False):
        pass
    st, dt = mtype(sh, wcode, src["text"], dyn0), mtype(sh, wcode, dst["text"], dyn0)
    text = f"builtin.module {{\nfunc.func @f(%s : {st}, %d : {dt}) {{\n  \"memref.copy\"(%s, %d) : ({st}, {dt}) -> ()\n  func.return\n}}\n}}\n"
    key = f"{case!r}"
    case_j = dict(case=case, src=st, dst=dt)
    try:
        mod = common.compile_text(text, "snax-copy-to-dma")
    except common.Rejected as e:
        r.rejected = e.kind
        r.count("rejected:" + e.kind + ":" + str(e)[:70])
        return r
    except RuntimeError as e:
        # type does not verify (e.g. strided layout inconsistent with a dynamic dim): not a case
        r.rejected = "invalid-type"
        return r
    out_text = common.to_text(mod)
    if "memref.copy" in out_text:
        r.rejected = "not-lowered"
        r.count("copy_left_unlowered")
        return r
    mem = ByteMemory()
    shape_box = list(ref.box(list(sh)))
    src_fp, dst_fp = set(), set()
    for idx in shape_box:
        sa = SRC_BASE + (ref.addr(src["dims"], idx) + src["offset"]) * w
        da = DST_BASE + (ref.addr(dst["dims"], idx) + dst["offset"]) * w
        for k in range(w):
            mem.mem[sa + k] = ("el", idx, k)
            src_fp.add(sa + k)
            dst_fp.add(da + k)
    sv = make_view("src", SRC_BASE, sh, w, src)
    dv = make_view("dst", DST_BASE, sh, w, dst)
    h = dict(mem_handlers())
    h["func.call"] = mem.h_call
    it = Interp(handlers=h, budget=200000)
    try:
        it.run_func(find_func(mod, "f"), [sv, dv])
    except (UseBeforeDef, StepBudget, ValueError) as e:
        r.violate(key + "|exec", dict(case_j, lowered=out_text), f"lowered copy cannot be executed: {type(e).__name__}: {e}; {st} -> {dt}")
        return r
    r.transitions = it.steps
    r.states = len(shape_box)
    r.validated = 1
    r.count("dma_transfers", mem.transfers)
    r.nontrivial = src["text"] != dst["text"]
    bad = None
    for idx in shape_box:
        da = DST_BASE + (ref.addr(dst["dims"], idx) + dst["offset"]) * w
        for k in range(w):
            got = mem.mem.get(da + k, POISON)
            if got != ("el", idx, k):
                bad = f"destination element {idx} byte {k} (address dst+{da + k - DST_BASE}) holds {got}"
                break
        if bad:
            break
    if bad is None:
        stray_r = mem.reads - src_fp
        stray_w = mem.writes - dst_fp
        if stray_r:
            a = min(stray_r)
            bad = f"reads {len(stray_r)} byte(s) outside the source footprint, e.g. {'src' if a < DST_BASE else 'dst'}+{a - (SRC_BASE if a < DST_BASE else DST_BASE)}"
        elif stray_w:
            a = min(stray_w)
            bad = f"writes {len(stray_w)} byte(s) outside the destination footprint, e.g. {'src' if a < DST_BASE else 'dst'}+{a - (SRC_BASE if a < DST_BASE else DST_BASE)}"
    r.obs = (st, dt, mem.transfers)
    r.sample = dict(src=st, dst=dt, transfers=mem.transfers, lowered=out_text[:1500])
    if bad:
        r.violate(key + "|" + bad.split(" ")[0], dict(case_j, lowered=out_text), f"copy {st} -> {dt}: {bad}")
    return r


def _t(x):
    return tuple(_t(i) for i in x) if isinstance(x, list) else x


def replay(case):
    return evaluate(_t(case["case"])).violations
