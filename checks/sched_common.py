"""Shared enumeration for C03 (iteration space preserved) and C16 (returned schedules fit the template)."""
from __future__ import annotations

import itertools
from collections import Counter
from fractions import Fraction

import numpy as np

from mc import common  # noqa: F401
from mc.driver import CaseResult
from mc.space import Concat, Product, Strided, Tagged, power

from xdsl.ir.affine import AffineMap

from snaxc.ir.dart.access_pattern import Schedule, SchedulePattern, Template, TemplatePattern
from snaxc.ir.dart.affine_transform import AffineTransform
from snaxc.ir.dart import scheduler as SCH

BOUNDS_MENU = [1, 2, 3, 4, 5, 6, 8]  # 5: does not divide, and >= 2x the template bounds 2 (a guard `bound < 2*template` would hide it)

# ---------------------------------------------------------------------------------------------- exact helpers


def rank(rows):
    """rank over Q by Fraction Gaussian elimination"""
    m = [[Fraction(int(x)) for x in r] for r in rows if len(r)]
    rk = 0
    ncols = len(m[0]) if m else 0
    for c in range(ncols):
        piv = None
        for i in range(rk, len(m)):
            if m[i][c] != 0:
                piv = i
                break
        if piv is None:
            continue
        m[rk], m[piv] = m[piv], m[rk]
        for i in range(len(m)):
            if i != rk and m[i][c] != 0:
                f = m[i][c] / m[rk][c]
                m[i] = [a - f * b for a, b in zip(m[i], m[rk])]
        rk += 1
    return rk


def same_row_space(A, B):
    A, B = [list(r) for r in A], [list(r) for r in B]
    ra, rb = rank(A), rank(B)
    return ra == rb == rank(A + B)


def exact_matches(tA, sA):
    """the documented matching rule, decided exactly: schedule restricted to the template's inner dims spans the same
    index subspace (row space) as the template; outer result rows of the template may be broadcast away."""
    tA = np.array(tA)
    sA = np.array(sA)
    n = tA.shape[1]
    if sA.shape[1] > n:
        sA = sA[:, -n:]
    elif sA.shape[1] < n:
        return False
    extra = tA.shape[0] - sA.shape[0]
    if extra > 0:
        tA = tA[extra:, :]
    return same_row_space(tA.tolist(), sA.tolist())


def image(schedule_like, bounds=None):
    """multiset of operand-index tuples over the whole iteration box"""
    pats = list(schedule_like)
    bs = list(bounds if bounds is not None else pats[0].bounds)
    c = Counter()
    for x in itertools.product(*[range(b) for b in bs]):
        xv = np.array(x, dtype=np.int_)
        c[tuple(tuple(int(v) for v in (p.pattern.A @ xv + p.pattern.b)) if len(bs) else tuple(int(v) for v in p.pattern.b) for p in pats)] += 1
    return c


# ---------------------------------------------------------------------------------------------- templates


def T(bounds, *mats):
    return Template(TemplatePattern(bounds, AffineTransform(np.array(m, dtype=np.int_), np.zeros(len(m), dtype=np.int_))) for m in mats)


TEMPLATES = {
    "vec4": lambda: T((4,), [[1]]),
    "vec4x2": lambda: T((4,), [[1]], [[1]]),
    "vec4x3": lambda: T((4,), [[1]], [[1]], [[1]]),
    "vecN": lambda: T((None,), [[1]]),
    "tile2": lambda: T((None, 2), [[2, 1]]),
    "mm222": lambda: T((2, 2, 2), [[1, 0, 0], [0, 0, 1]], [[0, 0, 1], [0, 1, 0]], [[1, 0, 0], [0, 1, 0]]),
    "mm2N2": lambda: T((2, None, 2), [[1, 0, 0], [0, 0, 1]], [[0, 0, 1], [0, 1, 0]], [[1, 0, 0], [0, 1, 0]]),
    # templates with a unit spatial bound (a 1 x 2 x 2 vector-matrix array, a tile of one lane)
    "mm122": lambda: T((1, 2, 2), [[1, 0, 0], [0, 0, 1]], [[0, 0, 1], [0, 1, 0]], [[1, 0, 0], [0, 1, 0]]),
    "mm212": lambda: T((2, 1, 2), [[1, 0, 0], [0, 0, 1]], [[0, 0, 1], [0, 1, 0]], [[1, 0, 0], [0, 1, 0]]),
    "vec1": lambda: T((1,), [[1]]),
    "tile1": lambda: T((None, 1), [[2, 1]]),
    "bcast": lambda: T((2, 2), [[1, 0], [0, 1]], [[0, 1]]),  # second operand: a row broadcast over the first dim
    "rankmis": lambda: T((2, 2), [[1, 0], [0, 1]], [[1, 0], [0, 1]]),
}

MM = ([[1, 0, 0], [0, 0, 1]], [[0, 0, 1], [0, 1, 0]], [[1, 0, 0], [0, 1, 0]])

CHECKSETS = {
    "none": [],
    "pos": ["pos"],
    "mem111": ["mem:1,1,4"],
    "pos+mem888": ["pos", "mem:8,8,8"],
    "ocs": ["ocs"],
}


def make_checks(names, noper):
    out = []
    for n in names:
        if n == "pos":
            out.append(SCH.is_pure_output_stationary)
        elif n == "ocs":
            out.append(lambda t, s: SCH.is_output_channel_stationary(t, s, 1) if s[-1].pattern.A.shape[0] > 1 else True)
        elif n.startswith("mem:"):
            sizes = [int(x) for x in n[4:].split(",")]
            sizes = (sizes * 3)[:noper]
            out.append(lambda t, s, sizes=sizes: SCH.is_memory_flexible_enough(t, s, sizes))
    return out


# independent re-implementations of the documented constraints (for C16 (iii))


def ref_pure_output_stationary(template, schedule):
    A = schedule[-1].pattern.A
    outer = A[:, : A.shape[1] - template.num_dims] if A.shape[1] > template.num_dims else A[:, :0]
    kinds = [any(int(v) != 0 for v in outer[:, j]) for j in range(outer.shape[1])]  # True = parallel
    seen_reduction = False
    for k in kinds:
        if not k:
            seen_reduction = True
        elif seen_reduction:
            return False
    return True


def ref_memory_flexible(template, schedule, sizes):
    if not schedule.num_dims > template.num_dims:
        return True
    n = template.num_dims
    for s, size in zip(schedule, sizes):
        gran = -(-8 // size)
        ok = False
        for row in s.pattern.A.tolist():
            temporal, spatial = row[: len(row) - n], row[len(row) - n :]
            if any(v == 1 for v in spatial) and all(v % gran == 0 for v in temporal):
                ok = True
        if not ok:
            return False
    return True


def ref_checks(names, noper):
    out = []
    for n in names:
        if n == "pos":
            out.append(("pure output stationary", ref_pure_output_stationary))
        elif n.startswith("mem:"):
            sizes = [int(x) for x in n[4:].split(",")]
            sizes = (sizes * 3)[:noper]
            out.append((f"memory flexibility for element sizes {sizes}", lambda t, s, sizes=sizes: ref_memory_flexible(t, s, sizes)))
    return out


# ---------------------------------------------------------------------------------------------- spaces


def perms(n):
    return list(itertools.permutations(range(n)))


def space(tier):
    th = tier == "thorough"
    parts = []
    ent = [0, 1, 2, 3] if th else [0, 1, 2]
    # (a) one operand, one result row, d dims: every matrix, every bounds vector
    for tname in ("vec4", "vecN", "tile2"):
        for d in (1, 2, 3):
            bm = BOUNDS_MENU if d <= 2 or th else [1, 2, 4, 5, 8]
            parts.append(Tagged("sched", Product([tname], [(1,)], [d], power(ent if d == 3 else [-1] + ent, d), power(bm, d), ["none"])))
    # (b) two / three operands, one row each, d <= 2
    for tname, k in (("vec4x2", 2), ("vec4x3", 3)):
        for d in (1, 2):
            parts.append(Tagged("sched", Product([tname], [(1,) * k], [d], power([0, 1, 2], d * k), power(BOUNDS_MENU, d), ["none", "pos", "mem111"])))
    # (c) matmul family: standard maps under every dim permutation, with single-entry perturbations and an optional batch dim
    if th:
        parts.append(Tagged("mm", Product(["mm222", "mm2N2"], perms(3), range(55), power(BOUNDS_MENU, 3), ["none", "pos", "pos+mem888", "mem111", "ocs"], [0, 1])))
    else:
        parts.append(Tagged("mm", Product(["mm222", "mm2N2"], perms(3), range(55), power([1, 2, 4, 5], 3), ["none", "pos+mem888", "ocs"], [0])))
        parts.append(Tagged("mm", Product(["mm222", "mm2N2"], perms(3), [0, 7, 30, 42, 45, 51, 54], power([1, 2, 4], 3), ["pos", "mem111"], [0, 1])))
    # (c') templates with a unit spatial bound
    parts.append(Tagged("mm", Product(["mm122", "mm212"], perms(3), [0, 7, 30, 42, 45, 51, 54] if not th else range(55), power([1, 2, 4] if not th else [1, 2, 4, 5], 3), ["none", "pos+mem888"], [0])))
    for tname in ("vec1", "tile1"):
        for d in (1, 2):
            parts.append(Tagged("sched", Product([tname], [(1,)], [d], power([-1] + ent, d), power(BOUNDS_MENU, d), ["none"])))
    # (d) broadcast-row and rank-mismatch templates: two operands (2 rows, 1 or 2 rows), d = 2,3
    for tname, rows in (("bcast", (2, 1)), ("rankmis", (2, 2))):
        for d in (2, 3):
            e = [0, 1] if (d == 3 or (sum(rows) == 4 and not th)) else [0, 1, 2]
            parts.append(Tagged("sched", Product([tname], [rows], [d], power(e, d * sum(rows)), power([1, 2, 4] if d == 3 else BOUNDS_MENU, d), ["none"])))
    # (e) elementary transformations on their own: every small matrix / bounds / dim / factor
    for (r, d) in [(1, 1), (1, 2), (2, 2), (1, 3), (2, 3)]:
        e = [-1, 0, 1, 2] if r * d <= 4 else [0, 1, 2]
        parts.append(Tagged("elem", Product([(r, d)], power(e, r * d), power(BOUNDS_MENU if (d <= 2 or th) else [1, 2, 3, 4], d), [0, 1])))
    # (f) the matcher against exact row-space equality
    for (r, c), e in [((1, 1), [-1, 0, 1, 2]), ((1, 2), [-1, 0, 1, 2]), ((2, 2), [-1, 0, 1, 2]), ((1, 3), [-1, 0, 1, 2]), ((2, 3), [0, 1, 2]), ((3, 3), [0, 1])]:
        if (r, c) == (3, 3) and not th:
            parts.append(Tagged("match", Product([(r, c, r)], power(e, r * c), Strided(power(e, r * c), 7))))
        else:
            parts.append(Tagged("match", Product([(r, c, r)], power(e, r * c), power(e, r * c))))
    # broadcast rule: template with more rows than the schedule
    parts.append(Tagged("match", Product([(2, 2, 1)], power([-1, 0, 1, 2], 4), power([-1, 0, 1, 2], 2))))
    parts.append(Tagged("match", Product([(3, 2, 2)], power([0, 1, 2], 6), power([0, 1, 2], 4))))
    # the schedule operand has MORE result rows than the template operand (higher-rank operand): every row counts
    parts.append(Tagged("match", Product([(1, 2, 2)], power([-1, 0, 1, 2], 2), power([-1, 0, 1, 2], 4))))
    parts.append(Tagged("match", Product([(2, 2, 3)], power([0, 1, 2], 4), power([0, 1, 2], 6))))
    parts.append(Tagged("match", Product([(1, 3, 2)], power([-1, 0, 1, 2], 3), power([0, 1, 2], 6))))
    # (g) the scheduler PASS on modules with one, two (every ordered pair) and three operations
    mods = [(a,) for a in MOD_SHAPES] + [(a, b) for a in MOD_SHAPES for b in MOD_SHAPES] + [(a, b, a) for a in MOD_SHAPES[:4] for b in MOD_SHAPES[:4]]
    parts.append(Tagged("module", Product(mods)))
    # (h) the scheduler PASS on convolution-like snax_gemmx operations (i8 x i8 -> i32): every order of the six loops (quick: oh outermost) x kernel / channel sizes
    parts.append(Tagged("passconv", Product(perms(6) if th else [p_ for p_ in perms(6) if p_[0] == 0], CONV_SIZES if th else CONV_SIZES[:4])))
    return Concat(*parts)


# ---------------------------------------------------------------------------------------------- evaluation


class TileSpy:
    """records every SchedulePattern.tile_dim call made while the scheduler runs (harness-side wrapper, /repo untouched)"""

    def __init__(self):
        self.calls = []
        self.orig = SchedulePattern.tile_dim

    def __enter__(self):
        spy = self

        def tile_dim(self_, dim, template_bound):
            spy.calls.append((self_.bounds[dim], template_bound))
            return spy.orig(self_, dim, template_bound)

        SchedulePattern.tile_dim = tile_dim
        return self

    def __exit__(self, *a):
        SchedulePattern.tile_dim = self.orig


def build_schedule(rows, d, flat, bounds):
    pats, p = [], 0
    for r in rows:
        A = np.array(flat[p : p + r * d], dtype=np.int_).reshape(r, d)
        p += r * d
        pats.append(SchedulePattern(bounds, AffineTransform(A, np.zeros(r, dtype=np.int_))))
    return Schedule(pats)


def build_mm(perm, pert, bounds, batch):
    mats = [np.array(m, dtype=np.int_) for m in MM]
    # single-entry perturbation: index 0 = none; 1..54: entry (operand, row, col) set to 0 / 2 / -1 (a reversed walk)
    if pert:
        k = pert - 1
        o, rest = divmod(k, 18)
        e, v = divmod(rest, 3)
        rr, cc = divmod(e, 3)
        mats[o][rr][cc] = (0, 2, -1)[v]
    mats = [m[:, list(perm)] for m in mats]
    bs = tuple(bounds[i] for i in perm)
    if batch:
        # extra outer batch dim indexing nothing in A, B but offsetting... keep linear: batch only enlarges the space
        mats = [np.concatenate([np.zeros((2, 1), dtype=np.int_), m], axis=1) for m in mats]
        mats[2][0][0] = 0
        bs = (2,) + bs
    return Schedule(SchedulePattern(bs, AffineTransform(m, np.zeros(2, dtype=np.int_))) for m in mats)


MAX_RESULTS = 200


def run_scheduler(r: CaseResult, tname, schedule, checkset, key, case, want):
    """want: set of property ids to report ('C03', 'C16')"""
    template = TEMPLATES[tname]()
    if len(template) != len(schedule):
        r.rejected = "operand-count"
        return
    checks = make_checks(CHECKSETS[checkset], len(schedule))
    orig_image = image(schedule)
    with TileSpy() as spy:
        try:
            results = []
            for i, s in enumerate(SCH.scheduler_backtrack(template, schedule, extra_checks=checks)):
                results.append(s)
                if i + 1 >= MAX_RESULTS:
                    r.count("result_cap_hit")
                    break
        except Exception as e:
            r.rejected = "scheduler:" + type(e).__name__
            r.count("scheduler_exc:" + type(e).__name__ + ":" + str(e)[:50])
            return
    r.count("schedules_yielded", len(results))
    r.count("cases_with_results", int(bool(results)))
    r.count("tile_calls", len(spy.calls))
    r.nontrivial = bool(results)
    r.obs = (tname, checkset, str(schedule), len(results))
    r.states = len(results) + 1
    r.validated = 1
    r.sample = dict(template=tname, checks=checkset, schedule=str(schedule), n_results=len(results), first=str(results[0]) if results else None)
    if "C03" in want:
        for b, tb in spy.calls:
            if tb <= 0 or b % tb != 0:
                r.violate(key + "|C03|tile-guard", case, f"scheduler called tile_dim on bound {b} with template bound {tb} (not a divisor): iterations are lost; schedule {schedule} template {tname}")
                break
    n = template.num_dims
    for idx, s in enumerate(results):
        r.transitions += 1
        if "C03" in want:
            if image(s) != orig_image:
                r.violate(key + "|C03|space", case, f"result #{idx} of scheduler_backtrack visits a different multiset of operand indices: {schedule} -> {s} (template {tname}, checks {checkset})")
                break
        if "C16" in want:
            bad = None
            # a schedule with fewer dims than the template (missing outer dims = bound 1) is compared with the
            # template's innermost dims only - the statement speaks about the schedule's innermost dimensions
            ne = min(n, s.num_dims)
            if s.num_dims < n:
                r.count("results_with_fewer_dims_than_template")
            if True:
                for o, (tp, sp) in enumerate(zip(template, s)):
                    if not exact_matches(tp.pattern.A[:, n - ne :].tolist(), sp.pattern.A.tolist()):
                        bad = f"operand {o}: inner {ne} dims {sp.pattern.A[:, -ne:].tolist()} do not span the template's index subspace {tp.pattern.A[:, n - ne:].tolist()}"
                        break
                if bad is None:
                    for k in range(1, ne + 1):
                        tb = template[0].bounds[-k]
                        if tb is not None and s[0].bounds[-k] > tb:
                            bad = f"inner bound {s[0].bounds[-k]} at depth {k} exceeds the template bound {tb}"
                            break
                if bad is None and len({p.bounds for p in s}) != 1:
                    bad = "operands of the returned schedule have different bounds"
                if bad is None:
                    for name, fn in ref_checks(CHECKSETS[checkset], len(s)):
                        if not fn(template, s):
                            bad = f"requested constraint '{name}' does not hold"
                            break
            if bad:
                r.violate(key + "|C16|" + bad[:25], case, f"result #{idx}: {bad}; {schedule} -> {s} (template {tname}, checks {checkset})")
                break
    # scheduler(schedule_idx=k) must be the k-th backtracking result
    if results and "C16" in want:
        try:
            k = len(results) - 1
            if len(results) < MAX_RESULTS and str(SCH.scheduler(template, schedule, extra_checks=checks, schedule_idx=k)) != str(results[k]):
                r.violate(key + "|C16|idx", case, "scheduler(schedule_idx=k) is not the k-th result of scheduler_backtrack")
        except Exception:
            pass


def eval_elem(r: CaseResult, shape, flat, bounds, off, want):
    rr, d = shape
    A = np.array(flat, dtype=np.int_).reshape(rr, d)
    b = np.array([off * (i + 1) for i in range(rr)], dtype=np.int_)
    sp = SchedulePattern(bounds, AffineTransform(A, b))
    sp2 = SchedulePattern(bounds, AffineTransform(A[::-1].copy() * 2, b))
    sch = Schedule([sp, sp2])
    base = image(sch)
    key = f"elem|{shape}|{flat}|{bounds}|{off}"
    case = dict(kind="elem", shape=shape, flat=flat, bounds=bounds, off=off)
    r.obs = ("elem", shape, flat, bounds, off)
    r.states = 1
    r.validated = 1
    r.sample = dict(kind="elem", schedule=str(sch))
    if "C03" not in want:
        return
    for dim in range(1, d + 1):
        r.transitions += 1
        rot = sch.rotate(dim)
        if image(rot) != base:
            r.violate(key + f"|C03|rotate", case, f"rotate({dim}) changed the iteration space: {sch} -> {rot}")
            break
    for dim in range(d):
        for f in (1, 2, 3, 4):
            if bounds[dim] % f == 0:
                r.transitions += 1
                t = sch.tile_dim(dim, f)
                if image(t) != base:
                    r.violate(key + "|C03|tile", case, f"tile_dim({dim},{f}) changed the iteration space: {sch} -> {t}")
                    break
    ad = sch.add_dim()
    if image(ad) != base:
        r.violate(key + "|C03|add_dim", case, f"add_dim changed the iteration space: {sch} -> {ad}")
    cl = sch.clear_unused_dims()
    if image(cl) != base:
        r.violate(key + "|C03|clear", case, f"clear_unused_dims changed the iteration space: {sch} -> {cl}")
    ca = sch.canonicalize()
    if image(ca) != base:
        r.violate(key + "|C03|canon", case, f"canonicalize changed the iteration space: {sch} -> {ca}")
    if image(ad.clear_unused_dims()) != base:
        r.violate(key + "|C03|add+clear", case, f"add_dim then clear_unused_dims changed the iteration space: {sch}")


def eval_match(r: CaseResult, shape, fa, fb, want):
    rt, c, rs = shape
    tA = np.array(fa, dtype=np.int_).reshape(rt, c)
    sA = np.array(fb, dtype=np.int_).reshape(rs, c)
    tp = TemplatePattern((2,) * c, AffineTransform(tA, np.zeros(rt, dtype=np.int_)))
    sp = SchedulePattern((2,) * c, AffineTransform(sA, np.zeros(rs, dtype=np.int_)))
    got = bool(tp.matches(sp))
    wantv = exact_matches(tA.tolist(), sA.tolist())
    r.obs = ("match", shape, fa, fb, got)
    r.states = 1
    r.transitions = 1
    r.validated = 1
    r.nontrivial = got
    r.sample = dict(kind="match", template=tA.tolist(), schedule=sA.tolist(), matches=got)
    if "C16" in want and got != wantv:
        r.violate(f"match|{shape}|{fa}|{fb}|C16|matcher", dict(kind="match", shape=shape, fa=fa, fb=fb), f"TemplatePattern.matches = {got} but the patterns {'do' if wantv else 'do not'} span the same index subspace: template {tA.tolist()} schedule {sA.tolist()}")


CONV_SIZES = [(3, 3, 8), (8, 3, 8), (1, 1, 16), (3, 1, 8), (8, 8, 8), (2, 2, 16), (5, 1, 8)]
CONV_DIMS = ("oh", "ow", "f", "kh", "kw", "c")


def eval_passconv(r, perm, sizes, want):
    """the real dart-scheduler PASS on a convolution-like snax_gemmx operation: x[oh+kh, ow+kw, c] * w[f, kh, kw, c] -> o[oh, ow, f], i8 x i8 -> i32, the six loops
    in the order `perm`. The element sizes and the constraints the pass requests are the pass's own business: the result must fit the accelerator's template,
    be pure output stationary and respect the 8-byte memory access granularity for 1 / 1 / 4-byte elements, and visit the operation's iteration space"""
    KH, KW, C = sizes
    ext = dict(oh=2, ow=8, f=8, kh=KH, kw=KW, c=C)
    order = [CONV_DIMS[i] for i in perm]
    d = {n: f"d{order.index(n)}" for n in CONV_DIMS}
    dl = ", ".join(f"d{i}" for i in range(6))
    maps = [
        f"affine_map<({dl}) -> ({d['oh']} + {d['kh']}, {d['ow']} + {d['kw']}, {d['c']})>",
        f"affine_map<({dl}) -> ({d['f']}, {d['kh']}, {d['kw']}, {d['c']})>",
        f"affine_map<({dl}) -> ({d['oh']}, {d['ow']}, {d['f']})>",
    ]
    tys = [f'memref<{2 + KH - 1}x{8 + KW - 1}x{C}xi8, "L1">', f'memref<8x{KH}x{KW}x{C}xi8, "L1">', 'memref<2x8x8xi32, "L1">']
    text = (
        "builtin.module {\nfunc.func @f(" + ", ".join(f"%m{i} : {t}" for i, t in enumerate(tys)) + ") {\n"
        f'  "dart.operation"(%m0, %m1, %m2) <{{patterns = [{", ".join(maps)}], accelerator = "snax_gemmx", operandSegmentSizes = array<i32: 2, 1>}}> ({{\n'
        "  ^bb0(%s0 : !dart.stream<i8>, %s1 : !dart.stream<i8>, %s2 : !dart.stream<i32>):\n"
        '    %g = "dart.generic"(%s0, %s1) <{library_call = "snax_gemmx"}> ({\n    ^bb1(%e0 : i8, %e1 : i8, %e4 : i32):\n'
        "      %k = kernel.mac %e0, %e1 : i8, i8 -> i32\n      dart.yield %k : i32\n    }) : (!dart.stream<i8>, !dart.stream<i8>) -> !dart.stream<i32>\n"
        "    dart.yield %g : !dart.stream<i32>\n  }) : (" + ", ".join(tys) + ") -> ()\n  func.return\n}\n}\n"
    )
    key = f"passconv|{perm!r}|{sizes!r}"
    case = dict(kind="passconv", perm=list(perm), sizes=list(sizes))
    r.obs = ("passconv", perm, sizes)
    r.sample = dict(kind="passconv", order=order, sizes=list(sizes))
    base = common.parse(text)
    base.verify()
    src = next(op for op in base.walk() if op.name == "dart.operation")
    obounds = tuple(ext[n] for n in order)
    orig = Schedule(SchedulePattern(obounds, p_.data) for p_ in src.patterns.data)
    try:
        mod = common.compile_text(text, "insert-accfg-op{accelerator=snax_gemmx},dart-scheduler")
    except common.Rejected as e:
        r.rejected = e.kind
        r.count("passconv_rejected:" + str(e)[:60])
        return
    ops = [op for op in mod.walk() if op.name == "dart.schedule"]
    if len(ops) != 1:
        r.rejected = "not-scheduled"
        return
    op = ops[0]
    bounds = tuple(b.value.data for b in op.bounds.data)
    sch = Schedule(SchedulePattern(bounds, p_.data) for p_ in op.patterns.data)
    r.obs = ("passconv", perm, sizes, str(sch))
    r.validated = 1
    r.states = 1
    r.transitions = 1
    r.nontrivial = True
    r.sample["schedule"] = str(sch)
    if "C03" in want and image(sch) != image(orig):
        r.violate(key + "|C03|space", case, f"the dart-scheduler pass turns the convolution (loops {order}, sizes {ext}) into a schedule that visits a different multiset of operand indices: {sch}")
    if "C16" in want:
        template = common.ctx().get_acc("snax_gemmx").get_template(op)
        n = template.num_dims
        bad = None
        if sch.num_dims < n:
            bad = f"the schedule has {sch.num_dims} dims, the template {n}"
        if bad is None:
            for o, (tp, sp) in enumerate(zip(template, sch)):
                if not exact_matches(tp.pattern.A.tolist(), sp.pattern.A.tolist()):
                    bad = f"operand {o}: inner {n} dims {sp.pattern.A[:, -n:].tolist()} do not span the template's index subspace {tp.pattern.A.tolist()}"
                    break
        if bad is None:
            for k in range(1, n + 1):
                tb = template[0].bounds[-k]
                if tb is not None and bounds[-k] > tb:
                    bad = f"inner bound {bounds[-k]} at depth {k} exceeds the template bound {tb}"
                    break
        if bad is None and not ref_pure_output_stationary(template, sch):
            bad = "the schedule is not pure output stationary (requested by the pass)"
        if bad is None and not ref_memory_flexible(template, sch, [1, 1, 4]):
            bad = "the schedule does not respect the 8-byte memory access granularity for element sizes 1, 1, 4 bytes (requested by the pass)"
        if bad:
            r.violate(key + "|C16|" + bad[:25], case, f"dart-scheduler pass on the convolution with loops {order}, sizes {ext}: {bad}; schedule {sch}")


MOD_SHAPES = [(1, 16), (16, 1), (4, 16), (16, 4), (16, 16), (64,), (1, 64), (2, 8, 4), (8, 1, 8)]


def eval_module(r, shapes, want):
    """the real dart-scheduler PASS on a module with several element-wise snax_alu operations (history: what the pass did for one operation must not leak into
    the next): every resulting dart.schedule visits exactly the operand-index tuples of its operation"""
    ops = []
    args = []
    for k, sh in enumerate(shapes):
        ty = "memref<" + "x".join(map(str, sh)) + 'xi64, "L1">'
        dims = ", ".join(f"d{i}" for i in range(len(sh)))
        m = f"affine_map<({dims}) -> ({dims})>"
        args += [f"%a{k} : {ty}", f"%b{k} : {ty}", f"%o{k} : {ty}"]
        ops.append(
            f'  "dart.operation"(%a{k}, %b{k}, %o{k}) <{{patterns = [{m}, {m}, {m}], accelerator = "snax_alu", operandSegmentSizes = array<i32: 2, 1>}}> ({{\n'
            f"  ^bb0(%s{k}0 : !dart.stream<i64>, %s{k}1 : !dart.stream<i64>, %s{k}2 : !dart.stream<i64>):\n"
            f'    %g{k} = "dart.generic"(%s{k}0, %s{k}1) <{{library_call = "snax_alu"}}> ({{\n    ^bb1(%e{k}0 : i64, %e{k}1 : i64, %e{k}2 : i64):\n      %k{k} = kernel.add %e{k}0, %e{k}1 : i64, i64 -> i64\n      dart.yield %k{k} : i64\n'
            f"    }}) : (!dart.stream<i64>, !dart.stream<i64>) -> !dart.stream<i64>\n    dart.yield %g{k} : !dart.stream<i64>\n"
            f"  }}) : ({ty}, {ty}, {ty}) -> ()\n"
        )
    text = "builtin.module {\nfunc.func @f(" + ", ".join(args) + ") {\n" + "".join(ops) + "  func.return\n}\n}\n"
    key = f"module|{shapes!r}"
    case = dict(kind="module", shapes=[list(x) for x in shapes])
    r.obs = ("module", shapes)
    r.sample = dict(kind="module", shapes=[list(x) for x in shapes])
    try:
        mod = common.compile_text(text, "insert-accfg-op{accelerator=snax_alu},dart-scheduler")
    except common.Rejected as e:
        r.rejected = e.kind
        r.count("module_rejected:" + str(e)[:60])
        return
    scheds = [op for op in mod.walk() if op.name == "dart.schedule"]
    if len(scheds) != len(shapes):
        r.rejected = "not-all-scheduled"
        return
    r.validated = 1
    for k, (sh, op) in enumerate(zip(shapes, scheds)):
        bounds = [b.value.data for b in op.bounds.data]
        mats = [AffineTransform.from_affine_map(p_.data) for p_ in op.patterns.data]
        got = Counter()
        for x in itertools.product(*[range(b) for b in bounds]):
            xv = np.array(x, dtype=np.int_)
            got[tuple(tuple(int(v) for v in (T.A @ xv + T.b)) for T in mats)] += 1
        wantc = Counter((idx, idx, idx) for idx in itertools.product(*[range(n) for n in sh]))
        r.states += sum(got.values())
        r.transitions += 1
        if "C03" in want and got != wantc:
            extra = next(iter((got - wantc).keys()), None)
            r.violate(key + f"|C03|op{k}", case, f"operation {k} over shape {sh} of a module with shapes {shapes}: the schedule (bounds {bounds}) visits a different multiset of operand indices, e.g. {extra}")


def evaluate(case, want) -> CaseResult:
    kind, p = case
    r = CaseResult()
    if kind == "module":
        eval_module(r, p[0], want)
        r.count("cases_module")
        return r
    if kind == "passconv":
        eval_passconv(r, p[0], p[1], want)
        r.count("cases_passconv")
        return r
    if kind == "sched":
        tname, rows, d, flat, bounds, cs = p
        sch = build_schedule(rows, d, flat, bounds)
        run_scheduler(r, tname, sch, cs, f"sched|{p!r}", dict(kind="sched", p=p), want)
    elif kind == "mm":
        tname, perm, pert, bounds, cs, batch = p
        sch = build_mm(perm, pert, bounds, batch)
        run_scheduler(r, tname, sch, cs, f"mm|{p!r}", dict(kind="mm", p=p), want)
    elif kind == "elem":
        eval_elem(r, *p, want)
    elif kind == "match":
        eval_match(r, *p, want)
    r.count("cases_" + kind)
    return r


def _t(x):
    return tuple(_t(i) for i in x) if isinstance(x, list) else x


def replay(case, want):
    k = case["kind"]
    if k == "module":
        return evaluate(("module", (_t(case["shapes"]),)), want).violations
    if k == "passconv":
        return evaluate(("passconv", (_t(case["perm"]), _t(case["sizes"]))), want).violations
    if k in ("sched", "mm"):
        r = evaluate((k, _t(case["p"])), want)
    elif k == "elem":
        r = evaluate(("elem", (_t(case["shape"]), _t(case["flat"]), _t(case["bounds"]), case["off"])), want)
    else:
        r = evaluate(("match", (_t(case["shape"]), _t(case["fa"]), _t(case["fb"]))), want)
    return r.violations
