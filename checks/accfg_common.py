"""Shared pieces of the accfg family checks (C01, C06, C07, C04)."""
from __future__ import annotations

from mc import common
from machines.accm import AccMachine
from machines.ir import Interp, InterpError, StepBudget, UseBeforeDef, find_func
from gen import accfg as G


def fields_of_factory(accs):
    def fields_of(acc):
        return accs[acc]["fields"]

    return fields_of


def execute(mod, args, accs=G.ACCS, hooks=None, budget=20000):
    """Run @f on the accfg machine. Returns (trace, machine, interp) ; trace ends with ('ubd', msg) on use-before-def."""
    m = AccMachine(fields_of_factory(accs))
    h = m.handlers()
    if hooks:
        h.update(hooks(m))
    it = Interp(handlers=h, budget=budget)
    f = find_func(mod, "f")
    try:
        it.run_func(f, args)
    except UseBeforeDef as e:
        m.trace.append(("use-before-def", str(e)[:160]))
    except StepBudget as e:
        m.trace.append(("step-budget", str(e)))
    return m.trace, m, it


def first_diff(ta, tb):
    for i, (a, b) in enumerate(zip(ta, tb)):
        if a != b:
            return i, a, b
    if len(ta) != len(tb):
        i = min(len(ta), len(tb))
        return i, (ta[i] if i < len(ta) else None), (tb[i] if i < len(tb) else None)
    return None


def fmt_event(e):
    if e is None:
        return "<end of trace>"
    if e[0] == "launch":
        return f"launch {e[1]} regs={dict(e[2])}" + (f" launchvals={dict(e[3])}" if e[3] else "")
    return " ".join(map(str, e))


def clone_module(mod):
    return mod.clone()
