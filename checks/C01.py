"""C01 — config deduplication never changes what a launch observes.

Shape A: every G_acc program up to the size/nesting bound x every run-time input vector (trip counts, branch outcomes).
Real code: accfg-trace-states, then accfg-dedup (hoist=true and hoist=false). Both IRs are executed on the accfg register
machine; the launch/await/call traces (launch = full register snapshot) must be identical.
"""
from __future__ import annotations

from mc import common
from mc.driver import CaseResult
from mc.space import Concat, Tagged
from gen import accfg as G
from checks.accfg_common import clone_module, execute, first_diff, fmt_event

PID = "C01"
RULE = (
    "all programs of grammar G_acc (full-field setup+launch+await, opaque/annotated calls, scf.for over run-time bounds with values derived "
    "from induction variables, scf.if on arguments / induction-variable parity, nesting) with <= N statement nodes, simplest first; each x all "
    "vectors of (lb,ub,step) from the menu x all branch outcomes. distinct = distinct (program, input, launch trace); non-trivial = dedup changed the IR"
)
ASSUMPTIONS = [
    "accelerator semantics = machines/accm.py: setup writes named fields, launch observes the whole register file, an unannotated call havocs all accelerators",
    "inputs are of the lowering's form: every launch is preceded by a full-field setup (so every launched field was written by the original program)",
    "a pass exception or verify() failure is a rejection (counted), not a violation",
]
BOUNDS = {
    "quick": dict(one_acc_nodes=4, two_acc_nodes=3, nesting=2, loop_triples=G.LOOP_TRIPLES, cfor=[(0, 2, 1), (3, 3, 1)], x=1000, y=2000),
    "thorough": dict(one_acc_nodes=5, two_acc_nodes=4, nesting=3, loop_triples=G.LOOP_TRIPLES, cfor=[(0, 2, 1), (3, 3, 1), (1, 7, 3)], x=1000, y=2000),
}
PIPELINES = ["accfg-dedup", "accfg-dedup{hoist=false}"]
MAX_VECTORS = 400


def space(tier):
    b = BOUNDS[tier]
    g1 = G.Grammar(accs=("acc1",), calls=("CALL",), ifp=True, max_depth=b["nesting"], cfor=b["cfor"])
    g2 = G.Grammar(accs=("acc1", "acc2"), calls=("CALL",), max_depth=b["nesting"])
    p1 = [p for p in g1.programs(b["one_acc_nodes"]) if G.has_launch(p)]
    seen = set(p1)
    p2 = [p for p in g2.programs(b["two_acc_nodes"]) if G.has_launch(p) and p not in seen and G.count_nodes(p, "L") >= 2]
    extra = []
    if tier == "thorough":
        g3 = G.Grammar(accs=("acc1",), calls=("CALL", "CALLN"), ifp=True, rich=True, max_depth=2)
        seen |= set(p2)
        extra = [p for p in g3.programs(4) if G.has_launch(p) and p not in seen]
    slim = []
    if tier == "quick":
        # one node deeper than the full grammar, with few leaves and nesting depth 1 (sequences of conditionals / loops / calls)
        seen |= set(p2)
        slim = [p for p in G.slim_programs(b["one_acc_nodes"] + 1) if p not in seen]
        slim += [p for p in G.slim_two_acc_programs(b["one_acc_nodes"] + 1) if p not in seen]
    return p1 + p2 + extra + slim + G.skeletons("acc1")


def evaluate(prog, only_vector=None) -> CaseResult:
    r = CaseResult()
    text, nfor, nif = G.emit(prog)
    try:
        base = common.compile_text(text, "accfg-trace-states")
    except common.Rejected as e:
        r.rejected = "trace:" + e.kind
        return r
    base_text = common.to_text(base)
    outs = []
    for pl in PIPELINES:
        m = clone_module(base)
        try:
            common.run_pipeline(m, pl)
        except Exception as e:
            r.count("rejected_" + pl + ":" + type(e).__name__)
            continue
        outs.append((pl, m, common.to_text(m)))
    if not outs:
        r.rejected = "dedup"
        return r
    changed = any(t != base_text for _, _, t in outs)
    r.nontrivial = changed
    r.count("programs_changed_by_dedup", int(changed))
    obs = []
    nvec = 0
    for loops, conds in G.input_vectors(nfor, nif):
        if only_vector is not None and [list(map(list, loops)), list(conds)] != only_vector:
            continue
        nvec += 1
        if nvec > MAX_VECTORS:
            r.count("vector_cap_hit")
            break
        args = G.args_for(loops, conds)
        t0, m0, it0 = execute(base, args)
        r.transitions += it0.steps
        r.states += len(t0)
        obs.append(hash(tuple(map(repr, t0))))
        for pl, m, _ in outs:
            t1, m1, it1 = execute(m, args)
            r.transitions += it1.steps
            r.validated += 1
            d = first_diff(t0, t1)
            if d is not None:
                i, a, b = d
                key = f"{prog!r}|{pl}|{loops}|{conds}"
                r.violate(
                    key,
                    dict(prog=prog, pipeline=pl, vector=[loops, conds], input_ir=base_text, output_ir=common.to_text(m)),
                    f"{pl}: event {i} differs for loops={loops} conds={conds}: original [{fmt_event(a)}] vs optimised [{fmt_event(b)}]; program {prog!r}",
                )
    r.obs = (prog, tuple(obs))
    r.sample = dict(program=repr(prog), ir=text, vectors=nvec, changed_by_dedup=changed)
    return r


def replay(case):
    r = evaluate(G.from_json(case["prog"]), only_vector=[[list(t) for t in case["vector"][0]], list(case["vector"][1])])
    return r.violations


CASE_TIMEOUT = 6


def on_timeout(r, prog):
    r.sample = dict(timeout_program=repr(prog))
    print(f"TIMEOUT C01 {prog!r}", flush=True)
