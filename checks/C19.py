"""C19 — canonical forms and alternative representations denote the same object.

Shape C: finite-domain exhaustion of pure functions against boring evaluators, on every point of a small box.
  affine   : all expression trees with <= k operators over {d0,d1,consts} with +,*,floordiv,mod -> canonicalize_expr / canonicalize_map
  matrix   : AffineTransform.from_affine_map / to_affine_map / compose / eval for all small integer matrices
  apattern : AccessPattern.canonicalize / inner_dims, PatternCollection.clear_unused_dims
  stride   : snax_stream.StridePattern.canonicalize (address *sequence* on machines/stream.py), print -> parse
  pack     : pack_bitlist executed on the IR machine vs sum(v << o)
  sconfig  : StreamerConfigurationAttr print -> parse (structural comparison)
"""
from __future__ import annotations

import itertools

import numpy as np

from mc import common
from mc.driver import CaseResult
from mc.space import Concat, Product, Tagged, power
from machines.ir import Interp, wrap
from machines import stream as SM

from xdsl.ir import Block
from xdsl.ir.affine import AffineBinaryOpExpr, AffineBinaryOpKind, AffineConstantExpr, AffineDimExpr, AffineMap
from xdsl.parser import Parser
from xdsl.dialects.builtin import i32, i64

from snaxc.util.canonicalize_affine import canonicalize_expr, canonicalize_map
from snaxc.ir.dart.affine_transform import AffineTransform
from snaxc.ir.dart.access_pattern import AccessPattern, SchedulePattern, Schedule, TemplatePattern, Template
from snaxc.dialects.snax_stream import StridePattern
from snaxc.dialects.snax import StreamerConfigurationAttr
from snaxc.util.pack_bitlist import pack_bitlist

PID = "C19"
RULE = (
    "affine: every expression tree with <= k binary operators over leaves {d0,d1,0,1,2,3}, ops {+,*,floordiv,mod} (constant on one side of *, positive "
    "constant divisor), evaluated on the box [-3,6]^2; matrix: all integer matrices up to 3x3 (entries -2..2, thinned) with offsets; apattern: bounds from "
    "{1,2,3,None} x matrices; stride: all patterns with <= 4 temporal dims, ub in {0,1,2,3}, ts in {0,1,2,4,8}, ss in {[],[8],[0],[8,64]}, plus <= 3 dims with ts in {-2,0,1,2,3,5,6,7,9}; pack: all value/offset "
    "lists of length <= 4 over {0,1,0x7f,0xff} x {0,8,16,24} in int/SSA mixes; sconfig: streamer configuration menu. distinct = distinct (input, denotation)"
)
ASSUMPTIONS = [
    "affine semantics: python floor division / modulo for positive divisors (MLIR affine floordiv/mod)",
    "stride pattern denotation = temporal address sequence of machines/stream.py (index 0 innermost)",
    "pack_bitlist is specified for disjoint bit-fields: expected value = sum(v << o) mod 2^dtype, compared when fields do not overlap",
]
BOUNDS = {"quick": dict(affine_ops=3, box=[-3, 6]), "thorough": dict(affine_ops=4, box=[-3, 6])}
CASE_TIMEOUT = 30

LEAVES = [("d", 0), ("d", 1), ("c", 0), ("c", 1), ("c", 2), ("c", 3)]
_TREES = {}


LEAVES_NEG = [("d", 0), ("d", 1), ("c", -1), ("c", -2), ("c", 2), ("c", 3)]


def trees(k, neg=False):
    """all expression trees with exactly k operators (nested tuples); neg: the leaf menu with negative constants"""
    if (k, neg) in _TREES:
        return _TREES[(k, neg)]
    if k == 0:
        out = list(LEAVES_NEG if neg else LEAVES)
    else:
        out = []
        for kl in range(k):
            kr = k - 1 - kl
            for l in trees(kl, neg):
                for r in trees(kr, neg):
                    out.append(("+", l, r))
                    # multiplication: a constant on one side
                    if r[0] == "c" or l[0] == "c":
                        out.append(("*", l, r))
                    # floordiv / mod: positive constant divisor
                    if r[0] == "c" and r[1] > 0:
                        out.append(("//", l, r))
                        out.append(("%", l, r))
    _TREES[(k, neg)] = out
    return out


def to_expr(t):
    if t[0] == "d":
        return AffineDimExpr(t[1])
    if t[0] == "c":
        return AffineConstantExpr(t[1])
    kind = {"+": AffineBinaryOpKind.Add, "*": AffineBinaryOpKind.Mul, "//": AffineBinaryOpKind.FloorDiv, "%": AffineBinaryOpKind.Mod}[t[0]]
    return AffineBinaryOpExpr(kind, to_expr(t[1]), to_expr(t[2]))


def ev(t, d):
    if t[0] == "d":
        return d[t[1]]
    if t[0] == "c":
        return t[1]
    a, b = ev(t[1], d), ev(t[2], d)
    if t[0] == "+":
        return a + b
    if t[0] == "*":
        return a * b
    if t[0] == "//":
        return a // b
    return a % b


def ev_expr(e, d):
    """independent evaluator of xDSL affine expressions (does not use AffineExpr.eval)"""
    if isinstance(e, AffineDimExpr):
        return d[e.position]
    if isinstance(e, AffineConstantExpr):
        return e.value
    a, b = ev_expr(e.lhs, d), ev_expr(e.rhs, d)
    k = e.kind
    if k is AffineBinaryOpKind.Add:
        return a + b
    if k is AffineBinaryOpKind.Mul:
        return a * b
    if k is AffineBinaryOpKind.FloorDiv:
        return a // b
    if k is AffineBinaryOpKind.Mod:
        return a % b
    if k is AffineBinaryOpKind.CeilDiv:
        return -((-a) // b)
    raise ValueError(k)


# ----------------------------------------------------------------------------------------------- spaces

MATS = {}


def mats(r, c, vals=(-2, -1, 0, 1, 2)):
    key = (r, c, vals)
    if key not in MATS:
        MATS[key] = power(list(vals), r * c)
    return MATS[key]


def space(tier):
    b = BOUNDS[tier]
    parts = []
    for k in range(0, b["affine_ops"] + 1):
        parts.append(Tagged("affine", Product([k], range(len(trees(k))))))
    # negative constants (multipliers, addends): floordiv / mod of negative values
    for k in range(1, 3 if tier == "quick" else 4):
        parts.append(Tagged("affine", Product([k], range(len(trees(k, True))), [tier], [True])))
    # matrices: from_affine_map(to_affine_map(M)) == M; eval; compose
    for (r, c) in [(1, 1), (1, 2), (2, 1), (2, 2), (1, 3), (3, 1), (2, 3), (3, 2)]:
        vals = (-2, -1, 0, 1, 2) if r * c <= 4 else (-1, 0, 2)
        parts.append(Tagged("matrix", Product([(r, c)], mats(r, c, vals), [(0,) * r, tuple(range(1, r + 1))])))
    parts.append(Tagged("matrix", Product([(3, 3)], mats(3, 3, (0, 1)), [(0, 0, 0), (1, -1, 2)])))
    for (r, m, c) in [(1, 1, 1), (2, 2, 2), (1, 2, 2), (2, 2, 1), (2, 1, 2)]:
        vals = (-1, 0, 1, 2) if r * m + m * c <= 6 else (-1, 0, 2)
        parts.append(Tagged("compose", Product([(r, m, c)], mats(r, m, vals), mats(m, c, vals), [0, 1])))
    # access patterns
    for (r, c) in [(1, 1), (1, 2), (2, 2), (1, 3), (2, 3)]:
        vals = (0, 1, 2) if r * c <= 4 else (0, 1)
        parts.append(Tagged("apattern", Product([(r, c)], mats(r, c, vals), power([1, 2, 3, None], c), [0, 1])))
    # stride patterns
    ubs, tss = [0, 1, 2, 3], [0, 1, 2, 4, 8]
    sss = [(), (8,), (0,), (8, 64)]
    for n in range(0, 5 if tier == "thorough" else 4):
        parts.append(Tagged("stride", Product(power(ubs, n), power(tss, n), sss)))
    if tier == "quick":
        parts.append(Tagged("stride", Product(power([1, 2, 3], 4), power([0, 1, 2, 4, 8], 4), [(8,)])))
    # strides that are not multiples of each other (padded pitches: outer stride = inner extent + a pad smaller than the inner stride) and negative strides
    odd = [-2, 0, 1, 2, 3, 5, 6, 7, 9]
    for n in range(2, 5 if tier == "thorough" else 4):
        parts.append(Tagged("stride", Product(power([1, 2, 3], n), power(odd, n), [(), (8,)])))
    # pack_bitlist
    vals, offs = [0, 1, 0x7F, 0xFF], [0, 8, 16, 24]
    for n in range(1, 5):
        mixes = list(itertools.product([0, 1], repeat=n)) if n <= 3 else [(0,) * n, (1,) * n, (0, 1, 0, 1)]
        parts.append(Tagged("pack", Product(power(vals, n), power(offs, n), mixes, [32, 64])))
    parts.append(Tagged("sconfig", Product(range(len(sconfig_menu())))))
    return Concat(*parts)


_SCFG = []


def sconfig_menu():
    if _SCFG:
        return _SCFG
    tdims = [("n",), ("n", "n"), ("r", "n", "n"), ("n", "i", "r"), ("i",), ("n",) * 6]
    sdims = [(4,), (8, 4), (1,), (8, 8, 2)]
    regular_opts = ["a", "c", "b", "t"]
    xdma_exts = ["maxpool", "memset", "t", "rescale_down", "rescale_up", "add", "add_long"]
    optsets = [tuple(c) for k in range(0, 5) for c in itertools.combinations(regular_opts, k)]
    for t in tdims:
        for s in sdims:
            for o in optsets:
                _SCFG.append(("reg", (("r", t, s, o),)))
    for o1 in optsets[::3]:
        for o2 in optsets[::4]:
            _SCFG.append(("reg", (("r", ("n", "n"), (8,), o1), ("w", ("r", "n"), (8, 4), o2), ("r", ("n",), (4,), ()))))
    for k in (0, 1, 2, 7):
        for c in itertools.combinations(range(7), k):
            _SCFG.append(("xdma", (("r", ("n",) * 5, (8,), ("ext", c, "c")), ("w", ("n",) * 5, (8,), ("ext", (), "c", "bm")))))
    return _SCFG


# ----------------------------------------------------------------------------------------------- evaluators


def pts(box):
    lo, hi = box
    return list(itertools.product(range(lo, hi + 1), repeat=2))


def eval_affine(r, k, idx, tier="quick", neg=False):
    t = trees(k, neg)[idx]
    e = to_expr(t)
    key = f"affine|{t!r}"
    case = dict(kind="affine", k=k, idx=idx, tree=repr(t), neg=neg)
    try:
        c = canonicalize_expr(e)
    except RecursionError:
        r.violate(key + "|nonterminating", case, f"canonicalize_expr does not terminate on {e}")
        return
    except AssertionError:
        # a crash, not a wrong answer (xDSL folds the re-associated sum to a non-binary expression): counted, not a violation
        r.rejected = "canonicalize:AssertionError"
        r.count("canonicalize_expr_assertion")
        return
    P = pts(BOUNDS[tier]["box"])
    table = []
    bad = None
    for d in P:
        want = ev(t, d)
        got = ev_expr(c, d)
        table.append(want)
        r.transitions += 1
        if got != want and bad is None:
            bad = f"canonicalize_expr({e}) = {c}: at (d0,d1)={d} original {want}, canonical {got}"
    r.states = len(P)
    r.obs = ("affine", str(e), tuple(table))
    r.nontrivial = str(c) != str(e)
    r.validated = 1
    r.sample = dict(kind="affine", expr=str(e), canonical=str(c))
    if bad:
        r.violate(key + "|value", case, bad)
    try:
        cc = canonicalize_expr(c)
        if cc != c:
            r.violate(key + "|idempotence", case, f"canonicalize_expr not idempotent: {e} -> {c} -> {cc}")
    except RecursionError:
        r.violate(key + "|nonterminating2", case, f"canonicalize_expr does not terminate on its own output {c}")
    # matrix form: AffineTransform.from_affine_map either refuses the map (not a pure linear transformation) or the matrix form evaluates identically
    try:
        T = AffineTransform.from_affine_map(AffineMap(2, 0, (e,)))
    except Exception:
        T = None
        r.count("from_affine_map_refused")
    if T is not None:
        r.count("from_affine_map_accepted")
        for d in P:
            gotm = int((T.A @ np.array(d, dtype=np.int_) + T.b)[0])
            if gotm != ev(t, d):
                r.violate(key + "|matrix-form", case, f"AffineTransform.from_affine_map({e}) = A {T.A.tolist()} b {T.b.tolist()}: at (d0,d1)={d} the map gives {ev(t, d)}, the matrix form {gotm}")
                break
    # map level (two results) + xDSL eval agreement
    m = AffineMap(2, 0, (e, AffineDimExpr(1) + e))
    cm = canonicalize_map(m)
    for d in P[:: 7]:
        if tuple(ev_expr(x, d) for x in cm.results) != (ev(t, d), d[1] + ev(t, d)):
            r.violate(key + "|map", case, f"canonicalize_map({m}) = {cm} differs at {d}")
            break


def eval_matrix(r, shape, flat, off):
    rr, cc = shape
    A = np.array(flat, dtype=np.int_).reshape(rr, cc)
    b = np.array(off, dtype=np.int_)
    T = AffineTransform(A, b)
    key = f"matrix|{shape}|{flat}|{off}"
    case = dict(kind="matrix", shape=shape, flat=flat, off=off)
    m = T.to_affine_map()
    T2 = AffineTransform.from_affine_map(m)
    r.obs = ("matrix", shape, flat, off)
    r.states = 1
    r.validated = 1
    r.sample = dict(kind="matrix", A=A.tolist(), b=b.tolist(), map=str(m))
    if not (T2 == T):
        r.violate(key + "|roundtrip", case, f"from_affine_map(to_affine_map(T)) != T for A={A.tolist()} b={b.tolist()}: map {m} -> A={T2.A.tolist()} b={T2.b.tolist()}")
    for x in itertools.product([-2, 0, 1, 3], repeat=cc):
        want = [int(sum(A[i][j] * x[j] for j in range(cc)) + b[i]) for i in range(rr)]
        got_t = [int(v) for v in T.eval(np.array(x, dtype=np.int_))]
        got_m = [ev_expr(e, list(x)) for e in m.results]
        r.transitions += 1
        if got_t != want or got_m != want:
            r.violate(key + "|eval", case, f"A={A.tolist()} b={b.tolist()} x={x}: reference {want}, AffineTransform.eval {got_t}, to_affine_map {got_m}")
            break
    # batch eval
    X = np.array(list(itertools.product([-1, 2], repeat=cc)), dtype=np.int_)
    gb = T.eval(X)
    for row, x in zip(gb, X):
        if [int(v) for v in row] != [int(v) for v in (A @ x + b)]:
            r.violate(key + "|batch", case, f"batch eval differs for A={A.tolist()}")
            break


def eval_compose(r, shape, fa, fb, offkind):
    rr, mm, cc = shape
    A = np.array(fa, dtype=np.int_).reshape(rr, mm)
    B = np.array(fb, dtype=np.int_).reshape(mm, cc)
    ba = np.array([offkind * (i + 1) for i in range(rr)], dtype=np.int_)
    bb = np.array([offkind * (2 - i) for i in range(mm)], dtype=np.int_)
    T1, T2 = AffineTransform(A, ba), AffineTransform(B, bb)
    C = T1.compose(T2)
    key = f"compose|{shape}|{fa}|{fb}|{offkind}"
    r.obs = ("compose", shape, fa, fb, offkind)
    r.states = 1
    r.validated = 1
    r.sample = dict(kind="compose", A=A.tolist(), B=B.tolist())
    for x in itertools.product([-1, 0, 2], repeat=cc):
        xv = np.array(x, dtype=np.int_)
        want = [int(v) for v in (A @ (B @ xv + bb) + ba)]
        got = [int(v) for v in C.eval(xv)]
        r.transitions += 1
        if want != got:
            r.violate(key, dict(kind="compose", shape=shape, fa=fa, fb=fb, offkind=offkind), f"compose: self(other(x)) = {want} but composed transform gives {got} at x={x}; A={A.tolist()} B={B.tolist()}")
            break


def eval_apattern(r, shape, flat, bounds, offkind):
    rr, cc = shape
    A = np.array(flat, dtype=np.int_).reshape(rr, cc)
    b = np.array([offkind * (i + 1) for i in range(rr)], dtype=np.int_)
    key = f"apattern|{shape}|{flat}|{bounds}|{offkind}"
    case = dict(kind="apattern", shape=shape, flat=flat, bounds=bounds, offkind=offkind)
    ap = TemplatePattern(bounds, AffineTransform(A, b))
    r.obs = ("apattern", shape, flat, bounds, offkind)
    r.states = 1
    r.validated = 1
    r.sample = dict(kind="apattern", pattern=str(ap))

    def image(p, dyn=2):
        bs = [bb if bb is not None else dyn for bb in p.bounds]
        out = []
        for x in itertools.product(*[range(n) for n in bs]):
            out.append(tuple(int(v) for v in p.pattern.eval(np.array(x, dtype=np.int_))) if len(bs) else tuple(int(v) for v in p.pattern.b))
        return sorted(out)

    c = ap.canonicalize()
    r.transitions += 1
    if image(c) != image(ap):
        r.violate(key + "|canon", case, f"AccessPattern.canonicalize changed the accessed index multiset: {ap} -> {c}")
    if c.canonicalize() != c and str(c.canonicalize()) != str(c):
        r.violate(key + "|idem", case, f"AccessPattern.canonicalize not idempotent: {c} -> {c.canonicalize()}")
    if any(bb == 1 for bb in c.bounds):
        r.violate(key + "|unit", case, f"canonical pattern still has a unit bound: {c}")
    # inner_dims(k): image over the inner k dims with outer dims fixed at 0
    for k in range(1, cc + 1):
        inner = ap.inner_dims(k)
        bs = [bb if bb is not None else 2 for bb in ap.bounds]
        want = sorted(tuple(int(v) for v in (A @ np.array((0,) * (cc - k) + x, dtype=np.int_) + b)) for x in itertools.product(*[range(n) for n in bs[cc - k :]]))
        if image(inner) != want or tuple(inner.bounds) != tuple(ap.bounds[cc - k :]):
            r.violate(key + f"|inner{k}", case, f"inner_dims({k}) of {ap} = {inner} does not equal the pattern with the outer dims fixed at 0")
    # clear_unused_dims on a two-operand collection (static bounds only)
    if all(bb is not None for bb in bounds):
        sp = SchedulePattern(bounds, AffineTransform(A, b))
        sp2 = SchedulePattern(bounds, AffineTransform(A[::-1].copy(), b[::-1].copy()))
        sch = Schedule([sp, sp2])
        cl = sch.clear_unused_dims()
        for p0, p1 in zip(sch, cl):
            if image(p0) != image(p1):
                r.violate(key + "|clear", case, f"clear_unused_dims changed the accessed multiset: {p0} -> {p1}")
                break


def eval_stride(r, ub, ts, ss):
    sp = StridePattern(list(ub), list(ts), list(ss))
    key = f"stride|{ub}|{ts}|{ss}"
    case = dict(kind="stride", ub=ub, ts=ts, ss=ss)
    c = sp.canonicalize()
    a0 = SM.temporal_addresses(list(ub), list(ts))
    cu, ct = [x.data for x in c.upper_bounds.data], [x.data for x in c.temporal_strides.data]
    a1 = SM.temporal_addresses(cu, ct)
    r.obs = ("stride", ub, ts, ss, tuple(a0))
    r.states = max(1, len(a0))
    r.transitions += len(a0)
    r.validated = 1
    r.nontrivial = (cu, ct) != (list(ub), list(ts))
    r.sample = dict(kind="stride", pattern=str(sp), canonical=str(c), addresses=a0[:12])
    if a0 != a1:
        r.violate(key + "|seq", case, f"StridePattern.canonicalize changes the address sequence: ub={list(ub)} ts={list(ts)} -> ub={cu} ts={ct}: {a0[:10]} vs {a1[:10]}")
    if [x.data for x in c.spatial_strides.data] != list(ss):
        r.violate(key + "|ss", case, "canonicalize changed the spatial strides")
    cc = c.canonicalize()
    if cc != c:
        r.violate(key + "|idem", case, f"StridePattern.canonicalize not idempotent: {c} -> {cc}")
    # print -> parse
    txt = common.to_text_attr(sp) if hasattr(common, "to_text_attr") else None
    import io
    from xdsl.printer import Printer

    out = io.StringIO()
    Printer(out).print_attribute(sp)
    try:
        back = Parser(common.ctx(), out.getvalue()).parse_attribute()
        if back != sp:
            r.violate(key + "|roundtrip", case, f"print->parse changed {out.getvalue()} -> {back}")
    except Exception as e:
        r.violate(key + "|roundtrip", case, f"printed stride pattern does not parse: {out.getvalue()}: {type(e).__name__}: {str(e)[:100]}")


def eval_pack(r, vals, offs, mix, dtype):
    from xdsl.dialects import arith

    key = f"pack|{vals}|{offs}|{mix}|{dtype}"
    case = dict(kind="pack", vals=vals, offs=offs, mix=mix, dtype=dtype)
    pre, values, offsets = [], [], []
    for v, o, m in zip(vals, offs, mix):
        if m:
            cv = arith.ConstantOp.from_int_and_width(v, dtype)
            co = arith.ConstantOp.from_int_and_width(o, dtype)
            pre += [cv, co]
            values.append(cv)
            offsets.append(co.result)
        else:
            values.append(v)
            offsets.append(o)
    ops = list(pack_bitlist(values, offsets, dtype))
    blk = Block()
    for op in pre + ops:
        blk.add_op(op)
    it = Interp()
    for op in blk.ops:
        it.exec_op(op)
    got = it.get(ops[-1].results[0])
    want = 0
    for v, o in zip(vals, offs):
        want |= v << o
    want_w = wrap(want, dtype)
    r.obs = ("pack", vals, offs, dtype, want_w)
    r.states = 1
    r.transitions = it.steps
    r.validated = 1
    r.sample = dict(kind="pack", values=list(vals), offsets=list(offs), dtype=dtype, packed=want_w)
    if got != want_w:
        r.violate(key, case, f"pack_bitlist(values={list(vals)}, offsets={list(offs)}, dtype={dtype}) evaluates to {got}, expected OR of shifted fields = {want_w}")
    if ops[-1].results[0].type != (i32 if dtype == 32 else i64):
        r.violate(key + "|type", case, "result type is not the requested dtype")


def build_sconfig(spec):
    from snaxc.accelerators.streamers import streamers as S
    from snaxc.accelerators.streamers import extensions as E

    kind, streamers = spec
    out = []
    for ty, t, s, o in streamers:
        opts = []
        if o and o[0] == "ext":
            opts += [E.XDMA_EXT_SET[i]() for i in o[1]]
            o = o[2:]
            for c in o:
                opts.append({"c": S.HasChannelMask, "bm": S.HasByteMask}[c]())
        else:
            for c in o:
                opts.append({"a": S.HasAddressRemap, "c": S.HasChannelMask, "b": S.HasBroadcast, "t": E.TransposeExtension}[c]())
        out.append(S.Streamer(S.StreamerType.Reader if ty == "r" else S.StreamerType.Writer, list(t), list(s), opts))
    return S.StreamerConfiguration(out, S.StreamerSystemType.DmaExt if kind == "xdma" else S.StreamerSystemType.Regular)


def describe(cfg):
    return (
        str(cfg.system_type()),
        tuple((str(s.type), tuple(str(f) for f in s.temporal_dims), tuple(s.spatial_dims), tuple(type(o).__name__ for o in s.opts)) for s in cfg.streamers),
    )


def eval_sconfig(r, idx):
    import io
    from xdsl.printer import Printer

    spec = sconfig_menu()[idx]
    cfg = build_sconfig(spec)
    attr = StreamerConfigurationAttr(cfg)
    out = io.StringIO()
    Printer(out).print_attribute(attr)
    txt = out.getvalue()
    key = f"sconfig|{spec!r}"
    case = dict(kind="sconfig", idx=idx, text=txt)
    r.obs = ("sconfig", txt, spec[0])
    r.states = 1
    r.validated = 1
    r.sample = dict(kind="sconfig", text=txt)
    try:
        back = Parser(common.ctx(), txt).parse_attribute()
    except Exception as e:
        r.violate(key + "|parse", case, f"printed streamer configuration does not parse: {txt}: {type(e).__name__}: {str(e)[:120]}")
        return
    d0, d1 = describe(cfg), describe(back.data)
    if d0[1] != d1[1]:
        r.violate(key + "|streamers", case, f"print->parse changed the streamers: {txt}: {d0[1]} -> {d1[1]}")
    if d0[0] != d1[0]:
        r.violate(key + "|systype", case, f"print->parse changed the system type {d0[0]} -> {d1[0]}: {txt}")


def evaluate(case) -> CaseResult:
    kind, p = case
    r = CaseResult()
    if kind == "affine":
        eval_affine(r, *p)
    elif kind == "matrix":
        eval_matrix(r, *p)
    elif kind == "compose":
        eval_compose(r, *p)
    elif kind == "apattern":
        eval_apattern(r, *p)
    elif kind == "stride":
        eval_stride(r, *p)
    elif kind == "pack":
        eval_pack(r, *p)
    elif kind == "sconfig":
        eval_sconfig(r, *p)
    r.count("cases_" + kind)
    return r


def _t(x):
    return tuple(_t(i) for i in x) if isinstance(x, list) else x


def replay(case):
    r = CaseResult()
    k = case["kind"]
    if k == "affine":
        eval_affine(r, case["k"], case["idx"], neg=case.get("neg", False))
    elif k == "matrix":
        eval_matrix(r, _t(case["shape"]), _t(case["flat"]), _t(case["off"]))
    elif k == "compose":
        eval_compose(r, _t(case["shape"]), _t(case["fa"]), _t(case["fb"]), case["offkind"])
    elif k == "apattern":
        eval_apattern(r, _t(case["shape"]), _t(case["flat"]), _t(case["bounds"]), case["offkind"])
    elif k == "stride":
        eval_stride(r, _t(case["ub"]), _t(case["ts"]), _t(case["ss"]))
    elif k == "pack":
        eval_pack(r, _t(case["vals"]), _t(case["offs"]), _t(case["mix"]), case["dtype"])
    elif k == "sconfig":
        eval_sconfig(r, case["idx"])
    return r.violations
