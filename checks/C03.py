"""C03 — scheduling preserves the iteration space (see checks/sched_common.py)."""
from checks import sched_common as S

PID = "C03"
RULE = (
    "schedules: every access matrix with entries in {0,1,2} (thorough +3) x every bounds vector from {1,2,3,4,5,6,8} for 1-3 operands / 1-3 dims, matmul maps "
    "under all dim permutations with single-entry perturbations and a batch dim; 13 templates (bounded, unbounded, tiled, matmul, unit spatial bounds, broadcast row, rank mismatch); "
    "extra-check subsets; ALL results of scheduler_backtrack; plus every elementary transformation (rotate/tile_dim/add_dim/clear_unused_dims/canonicalize) on "
    "every small matrix; the dart-scheduler PASS on modules of 1-3 element-wise operations and on convolution-like snax_gemmx operations in every loop order. Oracle: multiset of operand-index tuples over the whole box unchanged; tile_dim only ever called by the scheduler on dividing bounds. "
    "distinct = distinct (template, checks, schedule, #results); non-trivial = the scheduler yielded at least one schedule"
)
ASSUMPTIONS = ["iteration space of a schedule = {A_o x + b_o for every operand o | x in the bounds box}, compared as a multiset of operand-index tuples"]
BOUNDS = {"quick": dict(entries=[0, 1, 2], bounds=S.BOUNDS_MENU, max_results_per_case=S.MAX_RESULTS), "thorough": dict(entries=[0, 1, 2, 3], bounds=S.BOUNDS_MENU)}
CASE_TIMEOUT = 60


def space(tier):
    full = S.space(tier)
    return full


def evaluate(case):
    if case[0] == "match":
        r = S.CaseResult()
        r.nontrivial = False
        r.count("cases_skipped_match")
        return r
    return S.evaluate(case, {"C03"})


def replay(case):
    return S.replay(case, {"C03"})
