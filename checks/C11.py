"""C11 — allocations are big enough and never overlap while live.

size   (shape C) every memref.alloc type over a layout family (none / tiled-strided with gaps, padding, offsets; static and dynamic shapes;
       element widths 1,2,4,8) -> real memref-to-snax; the size computation is executed for every run-time shape and compared with the bytes the
       layout needs according to the independent evaluator (highest address + element size + offset).
static (shape A) every sequence of <= 4 snax.alloc with sizes / alignments / memories from menus -> real snax-allocate{mode=static}: aligned,
       pairwise disjoint, inside [start, start+capacity).
mini   (shape B) every allocation/use history over <= 3 buffers (direct uses, uses through a subview of the buffer, uses inside scf.for, a buffer
       allocated later) -> real memref-to-snax, canonicalize, snax-allocate{mode=minimalloc|auto} with the solver as environment: EVERY placement
       on a coarse grid that is valid for the lifetimes/sizes/alignments the pass declared is fed back; the output is executed: two buffers whose
       address ranges intersect must never have interleaved uses (through any view), and an inserted dealloc never precedes a later use.
"""
from __future__ import annotations

import itertools

from mc import common
from mc.driver import CaseResult
from mc.space import Concat, Product, Tagged, power
from machines import layout as ref
from machines.ir import Interp, InterpError, StepBudget, UseBeforeDef, find_func
from machines.memview import View, handlers as mem_handlers

PID = "C11"
RULE = (
    "size: layouts none / TSL (rank 1-2, depth <= 2, bounds {1,2,3}, steps {1,2,4,6,12}, offsets {0,3}, dynamic outermost tile) x element widths {1,2,4,8} x run-time "
    "shapes; static: all sequences of <= 4 allocations over sizes {1,7,64,100} x alignments {1,2,64,256} x memories {L1, Test(capacity 100), Odd(start 0x1004, capacity 300), Odd1(start 1, capacity 600)}; mini: all histories "
    "of <= 5 use events over 2-3 buffers (kinds: direct, through a subview, inside a loop), second/third buffer allocated up front or just before its first use, "
    "x ALL solver answers on a grid of 4 offsets; the histories of <= 3 events again with the buffers spread over two memory spaces (L1 / L3: one solver problem per "
    "space, every combination of answers, every buffer inside its own memory's address window). distinct = distinct (case, observation); non-trivial = a buffer is used through a view / address reuse is possible"
)
ASSUMPTIONS = [
    "minimalloc semantics: a buffer occupies [offset, offset+size) during the half-open lifetime [start_time, end_time) it is declared with; any non-conflicting, aligned placement inside the capacity is a legal answer",
    "a buffer is live from its allocation to its last use through ANY view (subview / cast) of it",
    "required bytes of a layout = (highest element address + 1 + offset) * element size (machines/layout.py)",
]
BOUNDS = {"quick": dict(uses=4, buffers=3, grid=4), "thorough": dict(uses=5, buffers=3, grid=6)}
CASE_TIMEOUT = 120
L1_START, L1_CAP = 0x10000000, 65536


# ------------------------------------------------------------------------------------------------ space


_TIER = ["quick"]


def space(tier):
    _TIER[0] = tier
    parts = [Tagged("size", _size_space(tier)), Tagged("static", _static_space(tier)), Tagged("mini", _mini_space(tier))]
    return Concat(*parts)


def _size_space(tier):
    strides = [(b, s) for b in [1, 2, 3] for s in [1, 2, 4, 6, 12]]
    parts = [Product(["none"], [(2,), (3, 4), (1, 5), (2, 3, 2)], [()], [0], [1, 2, 4, 8], [0])]
    for comp in [(1,), (2,), (1, 1), (2, 1), (1, 2)]:
        k = sum(comp)
        parts.append(Product(["tsl"], [comp], power(strides if k <= 2 else strides[::2], k), [0, 3], [1, 4] if k > 2 else [1, 2, 4, 8], [0, 1, 2]))
        if len(comp) >= 2:
            # the run-time dimension comes after a static one
            parts.append(Product(["tsl"], [comp], power(strides[::2], k), [0, 3], [1, 4], [3, 4]))
    return Concat(*parts)


def _static_space(tier):
    sizes, aligns, mems = [1, 7, 64, 100], [1, 2, 64, 256], ["L1", "Test", "Odd", "Odd1"]
    one = [(s, a) for s in sizes for a in aligns]
    parts = []
    for n in range(1, 4 if tier == "quick" else 5):
        parts.append(Product(mems, power(one if n <= 2 else one[::3], n)))
    # mixed memories
    parts.append(Product(["mixed"], power([(7, 2), (64, 64), (100, 1)], 3)))
    return Concat(*parts)


def _mini_space(tier):
    b = BOUNDS[tier]
    cases = []
    kinds = ["d", "v", "l", "ll"]  # direct, through a subview, inside a loop, inside a loop nest of depth 2
    for nb in (2, 3):
        events = [(buf, k) for buf in range(nb) for k in kinds]
        for n in range(2, b["uses"] + 1):
            for seq in itertools.product(events, repeat=n):
                used = {e[0] for e in seq}
                if used != set(range(nb)):
                    continue
                if tier == "quick" and n > 3 and any(e[1] == "ll" for e in seq):
                    continue
                if nb == 3 and n > 3 and tier == "quick":
                    # thin: at most one loop use
                    if sum(1 for e in seq if e[1] in ("l", "ll")) > 1:
                        continue
                # canonical buffer naming: first appearances in order 0,1,2
                firsts = []
                for e in seq:
                    if e[0] not in firsts:
                        firsts.append(e[0])
                if firsts != sorted(firsts):
                    continue
                for late in (0, 1):
                    for mode in ("minimalloc", "auto"):
                        if mode == "auto" and (late or n > 3):
                            continue
                        cases.append((nb, seq, late, mode))
                        # the same history with buffer 1 (and, in thorough, buffer 2 instead) in main memory: one solver problem per memory space
                        if tier == "thorough" or (n <= 3 and not any(e[1] == "ll" for e in seq)):
                            cases.append((nb, seq, late, mode, ("L1", "L3", "L1")[:nb]))
                            if nb == 3 and tier == "thorough":
                                cases.append((nb, seq, late, mode, ("L3", "L1", "L3")))
    return cases


# ------------------------------------------------------------------------------------------------ size


def eval_size(r, kind, comp_or_shape, flat, offset, elw, dynmode):
    el = {1: "i8", 2: "i16", 4: "i32", 8: "i64"}[elw]
    key = f"size|{(kind, comp_or_shape, flat, offset, elw, dynmode)!r}"
    case = dict(kind="size", args=[kind, comp_or_shape, flat, offset, elw, dynmode])
    if kind == "none":
        shape = list(comp_or_shape)
        dims = None
        lay = ""
        need = lambda shp: elw * _prod(shp)  # noqa: E731
        dyn = []
    else:
        dims, p = [], 0
        for d in comp_or_shape:
            dims.append(list(flat[p : p + d]))
            p += d
        shape = ref.shape(dims)
        dyn = []
        tdims = [list(d) for d in dims]
        # dynmode 1 / 2: the outermost tile of dim 0 has a run-time bound (2: and step); 3 / 4: the same on the LAST dim, after static dims
        dd = 0 if dynmode in (1, 2) else len(dims) - 1
        if dynmode >= 1:
            tdims[dd][0] = (None, None if dynmode in (2, 4) else dims[dd][0][1])
            dyn = [dd]
        parts = []
        for d in tdims:
            parts.append("[" + ", ".join("?" if b is None else str(b) for b, _ in d) + "] -> (" + ", ".join("?" if s is None else str(s) for _, s in d) + ")")
        lay = ", #tsl.tsl<" + ", ".join(parts) + (f", offset: {offset}" if offset else "") + ">"
    rt_menu = [1, 2, 3] if dyn else [None]
    for rt in rt_menu:
        shp = list(shape)
        if dyn:
            inner = _prod([b for b, _ in dims[dd][1:]])
            shp[dd] = rt * inner
        tshape = "x".join("?" if (i in dyn) else str(n) for i, n in enumerate(shp))
        dynargs = "%d0" if dyn else ""
        pre = '  %d0 = "test.op"() : () -> index\n' if dyn else ""
        text = f'builtin.module {{\nfunc.func @f() {{\n{pre}  %a = memref.alloc({dynargs}) {{alignment = 64 : i64}} : memref<{tshape}x{el}{lay}, "L1">\n  func.return\n}}\n}}\n'
        try:
            mod = common.compile_text(text, "memref-to-snax")
        except common.Rejected as e:
            r.rejected = e.kind
            r.count("size_rejected:" + e.kind)
            return
        alloc = None
        for op in mod.walk():
            if op.name == "snax.alloc":
                alloc = op
        if alloc is None:
            r.rejected = "not-converted"
            return
        it = Interp(handlers={"test.op": lambda it_, op: [shp[dd] if dyn else 0], "snax.alloc": lambda it_, op: [None], "builtin.unrealized_conversion_cast": lambda it_, op: [None]}, budget=5000)
        f = find_func(mod, "f")
        try:
            it.run_func(f, [])
        except UseBeforeDef as e:
            r.violate(key + "|ubd", case, f"size computation uses a value before its definition: {e}")
            return
        got = it.get(alloc.operands[0])
        if kind == "none":
            want = need(shp)
        else:
            # instantiate dynamic entries by the documented contiguity rule (see C10) to get the real layout
            inst = [list(d) for d in dims]
            if dyn:
                from checks.C10 import doc_rule_steps

                inst[dd][0] = (rt, None if dynmode in (2, 4) else dims[dd][0][1])
                static_bounds = [[b for b, _ in d] for d in dims]
                static_bounds[dd][0] = None
                inst = doc_rule_steps(inst, static_bounds)
            hi = max(ref.addr(inst, idx) for idx in ref.box(ref.shape(inst)))
            want = (hi + 1 + offset) * elw
        r.transitions += it.steps
        r.states += 1
        r.validated += 1
        if got < want:
            r.violate(key + "|too-small", case, f"memref<{tshape}x{el}{lay}> at run-time shape {shp}: {got} bytes are allocated but the layout touches {want} bytes")
        elif got > want:
            r.count("over_allocated_cases")
        if dyn and rt == 2 and not r.violations:
            dynamic_alloc_level(r, key, case, tshape, el, lay, shp, got, shp[dd])
    r.obs = ("size", kind, comp_or_shape, flat, offset, elw, dynmode)
    r.nontrivial = kind != "none"
    r.sample = dict(kind="size", type=f"memref<{'x'.join(map(str, shape))}x{el}{lay}>")


def dynamic_alloc_level(r, key, case, tshape, el, lay, shp, size_bytes, dynval):
    """a dynamically sized buffer makes snax-allocate{mode=auto} take the run-time allocation path: the request passed to snax_alloc_l1 carries the computed size
    and the declared alignment, and the memref descriptor handed to the users holds the returned pointers, offset 0 and the run-time sizes"""
    text = (
        'builtin.module {\nfunc.func @f() {\n  %d0 = "test.op"() : () -> index\n'
        f'  %a = memref.alloc(%d0) {{alignment = 64 : i64}} : memref<{tshape}x{el}{lay}, "L1">\n'
        f'  "test.op"(%a) {{verif.id = 1 : i32}} : (memref<{tshape}x{el}{lay}, "L1">) -> ()\n  func.return\n}}\n}}\n'
    )
    try:
        mod = common.compile_text(text, "memref-to-snax,canonicalize,snax-allocate{mode=auto}")
    except common.Rejected as e:
        r.count("dynalloc_rejected:" + str(e)[:60])
        return
    if not any(op.name == "func.call" and op.callee.string_value() == "snax_alloc_l1" for op in mod.walk()):
        # the size folded to a constant (layouts whose dynamic entries do not change the footprint): auto mode allocates statically, covered by the mini family
        r.count("dynalloc_static_path")
        return
    calls, seen = [], []
    P, A = 0x5004, 0x5040

    def h_call(it, op):
        callee = op.callee.string_value()
        if callee != "snax_alloc_l1":
            raise InterpError("call " + callee)
        calls.append(tuple(it.get(o) for o in op.operands))
        return [("retptr", len(calls))]

    def h_insert(it, op):
        d = dict(it.get(op.container))
        d[tuple(op.position.get_values())] = it.get(op.value)
        return [d]

    def h_extract(it, op):
        return [it.get(op.operands[0])[tuple(op.position.get_values())]]

    def h_test(it, op):
        if op.operands:
            seen.append(it.get(op.operands[0]))
            return []
        return [dynval]

    h = {
        "func.call": h_call, "llvm.load": lambda it, op: [{(0,): P, (1,): A}], "llvm.extractvalue": h_extract, "llvm.mlir.undef": lambda it, op: [{}],
        "llvm.insertvalue": h_insert, "builtin.unrealized_conversion_cast": lambda it, op: [it.get(op.operands[0])], "test.op": h_test,
    }
    it = Interp(handlers=h, budget=5000)
    try:
        it.run_func(find_func(mod, "f"), [])
    except (UseBeforeDef, InterpError, KeyError, TypeError) as e:
        r.violate(key + "|dyn-exec", case, f"run-time allocation code cannot be executed: {type(e).__name__}: {e}")
        return
    r.count("dynamic_allocations_checked")
    r.transitions += it.steps
    bad = None
    if len(calls) != 1:
        bad = f"{len(calls)} calls to snax_alloc_l1"
    elif calls[0][0] != size_bytes:
        bad = f"snax_alloc_l1 is asked for {calls[0][0]} bytes, the computed size is {size_bytes}"
    elif calls[0][1] != 64:
        bad = f"snax_alloc_l1 is asked for alignment {calls[0][1]}, declared 64"
    elif len(seen) != 1 or not isinstance(seen[0], dict):
        bad = f"the user of the buffer receives {seen}"
    else:
        d = seen[0]
        want = {(0,): P, (1,): A, (2,): 0}
        want.update({(3, i): n for i, n in enumerate(shp)})
        for k_, v in want.items():
            if d.get(k_) != v:
                bad = f"memref descriptor field {list(k_)} = {d.get(k_)} instead of {v} (pointer, aligned pointer, offset, sizes {shp})"
                break
    if bad:
        r.violate(key + "|dyn-descriptor", case, f"memref<{tshape}x{el}{lay}> at run-time shape {shp}: {bad}")


def _prod(xs):
    p = 1
    for x in xs:
        p *= x
    return p


# ------------------------------------------------------------------------------------------------ static

STRUCT1 = "!llvm.struct<(!llvm.ptr, !llvm.ptr, i32, !llvm.array<1 x i32>, !llvm.array<1 x i32>)>"
# Odd / Odd1: memory descriptions registered by the check whose start address is not a multiple of the usual alignments
MEMS = {"L1": (0x10000000, 65536), "Test": (0, 100), "Odd": (0x1004, 300), "Odd1": (1, 600)}


def _register_memories():
    from xdsl.dialects.builtin import StringAttr
    from snaxc.util.snax_memory import SnaxMemory

    c = common.ctx()
    for name in ("Odd", "Odd1"):
        try:
            c.get_memory(name)
        except KeyError:
            c.register_memory(SnaxMemory(StringAttr(name), capacity=MEMS[name][1], start=MEMS[name][0]))


def pointer_constants(mod):
    """pointer constants of the allocations in program order: value feeding llvm.inttoptr"""
    out = []
    for op in mod.walk():
        if op.name == "llvm.inttoptr":
            c = op.operands[0].owner
            out.append(c.value.value.data)
    return out


def eval_static(r, mem, seq):
    _register_memories()
    lines = []
    mems = []
    for i, (size, al) in enumerate(seq):
        m = mem if mem != "mixed" else ["L1", "Test", "L1"][i % 3]
        mems.append(m)
        lines.append(f"  %s{i} = arith.constant {size} : index")
        lines.append(f'  %a{i} = "snax.alloc"(%s{i}, %s{i}) <{{memory_space = "{m}", alignment = {al} : i64}}> : (index, index) -> {STRUCT1}')
        lines.append(f'  "test.op"(%a{i}) : ({STRUCT1}) -> ()')
    text = "builtin.module {\nfunc.func @f() {\n" + "\n".join(lines) + "\n  func.return\n}\n}\n"
    key = f"static|{mem}|{seq}"
    case = dict(kind="static", mem=mem, seq=seq)
    # reference: can the sequence fit at all when placed in order with alignment padding?
    fits = True
    cur = {}
    for (size, al), m in zip(seq, mems):
        a = cur.get(m, MEMS[m][0])
        if a % al:
            a += al - a % al
        if a + size > MEMS[m][0] + MEMS[m][1]:
            fits = False
        cur[m] = a + size
    try:
        mod = common.compile_text(text, "snax-allocate{mode=static}")
    except common.Rejected as e:
        r.rejected = e.kind
        r.count("static_rejected_fits" if fits else "static_rejected_over_capacity")
        r.obs = ("static", mem, seq, "rejected")
        return
    addrs = pointer_constants(mod)
    r.obs = ("static", mem, seq, tuple(addrs))
    r.states = len(addrs)
    r.validated = 1
    r.nontrivial = len(seq) >= 2
    r.sample = dict(kind="static", memory=mem, allocations=list(seq), addresses=addrs)
    if len(addrs) != len(seq):
        r.violate(key + "|count", case, f"{len(seq)} allocations but {len(addrs)} pointers were materialised")
        return
    rng = []
    for (size, al), m, a in zip(seq, mems, addrs):
        start, cap = MEMS[m]
        if a % al:
            r.violate(key + "|align", case, f"allocation of {size} bytes with alignment {al} in {m} placed at {a:#x} (not aligned); sequence {seq}")
        if a < start or a + size > start + cap:
            r.violate(key + "|window", case, f"allocation [{a:#x}, {a + size:#x}) lies outside the window [{start:#x}, {start + cap:#x}) of {m}; sequence {seq}")
        for (b0, b1, m2) in rng:
            if m2 == m and a < b1 and b0 < a + size:
                r.violate(key + "|overlap", case, f"allocations [{a:#x}, {a + size:#x}) and [{b0:#x}, {b1:#x}) of {m} overlap; sequence {seq}")
        rng.append((a, a + size, m))


# ------------------------------------------------------------------------------------------------ minimalloc

SIZE = 16  # bytes per buffer


def mini_text(nb, seq, late):
    mt = f'memref<{SIZE}xi8, "L1">'
    svt = f'memref<8xi8, strided<[1], offset: 4>, "L1">'
    lines = ["  %c0 = arith.constant 0 : index", "  %c1 = arith.constant 1 : index", "  %c2 = arith.constant 2 : index"]
    allocated = set()

    def alloc(b):
        lines.append(f"  %b{b} = memref.alloc() {{alignment = 8 : i64}} : {mt}")
        lines.append(f"  %v{b} = memref.subview %b{b}[4] [8] [1] : {mt} to {svt}")
        # a second, sibling view of the same buffer (used by the uses of kind 'll'): every view counts for the lifetime
        lines.append(f"  %w{b} = memref.subview %b{b}[4] [8] [1] : {mt} to {svt}")
        allocated.add(b)

    if not late:
        for b in range(nb):
            alloc(b)
    else:
        alloc(0)
    tag = 0
    for (b, k) in seq:
        if b not in allocated:
            alloc(b)
        tag += 1
        if k == "d":
            lines.append(f'  "test.op"(%b{b}) {{verif.id = {tag} : i32}} : ({mt}) -> ()')
        elif k == "v":
            lines.append(f'  "test.op"(%v{b}) {{verif.id = {tag} : i32}} : ({svt}) -> ()')
        elif k == "l":
            lines.append(f"  scf.for %i{tag} = %c0 to %c2 step %c1 {{")
            lines.append(f'    "test.op"(%b{b}) {{verif.id = {tag} : i32}} : ({mt}) -> ()')
            lines.append("  }")
        else:
            lines.append(f"  scf.for %i{tag} = %c0 to %c2 step %c1 {{")
            lines.append(f"    scf.for %j{tag} = %c0 to %c2 step %c1 {{")
            lines.append(f'      "test.op"(%w{b}) {{verif.id = {tag} : i32}} : ({svt}) -> ()')
            lines.append("    }")
            lines.append("  }")
    return "builtin.module {\nfunc.func @f() {\n" + "\n".join(lines) + "\n  func.return\n}\n}\n"


MEM_WINDOWS = {"L1": (0x10000000, 65536), "L3": (0x80000000, int(1e9)), "Test": (0, 100)}


def run_output(mod):
    """execute the allocated program: returns list of events ('use', tag, base_address) / ('dealloc', base_address)"""
    ev = []
    nbuf = [0]

    def h_undef(it, op):
        return [{}]

    def h_insert(it, op):
        cont, val = it.get(op.container), it.get(op.value)
        pos = tuple(op.position.get_values())
        d = dict(cont)
        d[pos] = val
        return [d]

    def h_cast(it, op):
        v = it.get(op.operands[0])
        if isinstance(v, dict):
            ty = op.results[0].type
            sizes = [v.get((3, i)) for i in range(len(ty.get_shape()))]
            nbuf[0] += 1
            return [View(("alloc", nbuf[0]), 1, 0, sizes, [1] * len(sizes), v[(1,)])]
        return [v]

    def h_test(it, op):
        ident = op.attributes.get("verif.id")
        for o in op.operands:
            v = it.get(o)
            if isinstance(v, View):
                ev.append(("use", ident.value.data if ident is not None else None, v.base, v.buf))
        return []

    def h_dealloc(it, op):
        v = it.get(op.operands[0])
        ev.append(("dealloc", v.base, v.buf))
        return []

    h = dict(mem_handlers())
    h.update({"llvm.mlir.undef": h_undef, "llvm.insertvalue": h_insert, "llvm.inttoptr": lambda it, op: [it.get(op.operands[0])], "builtin.unrealized_conversion_cast": h_cast, "test.op": h_test, "memref.dealloc": h_dealloc})
    it = Interp(handlers=h, budget=20000)
    it.run_func(find_func(mod, "f"), [])
    return ev, it.steps


def valid_placements(buffers, capacity, grid):
    """every placement on the offset grid that a correct solver may return for the declared problem"""
    offs = [g * 8 for g in range(grid)]
    for pl in itertools.product(offs, repeat=len(buffers)):
        ok = True
        for i, (b, o) in enumerate(zip(buffers, pl)):
            al = max(int(b.alignment), 1)
            if o % al or o + b.size > capacity:
                ok = False
                break
            for j in range(i):
                c, oc = buffers[j], pl[j]
                time_overlap = not (c.end_time <= b.start_time or b.end_time <= c.start_time)
                space_overlap = not (oc + c.size <= o or o + b.size <= oc)
                if time_overlap and space_overlap:
                    ok = False
                    break
            if not ok:
                break
        if ok:
            yield pl


def eval_mini(r, nb, seq, late, mode, mems=None, only_placement=None, tier=None):
    tier = tier or _TIER[0]
    import minimalloc

    if mems is not None:
        return eval_mini_mems(r, nb, seq, late, mode, mems, only_placement, tier)
    text = mini_text(nb, seq, late)
    key = f"mini|{nb}|{seq}|{late}|{mode}"
    case = dict(kind="mini", nb=nb, seq=seq, late=late, mode=mode, program=text)
    pipeline = f"memref-to-snax,canonicalize,snax-allocate{{mode={mode}}}"
    # first run with the default solver to capture the declared problem
    minimalloc.PROBLEMS.clear()
    minimalloc.ORACLE[0] = minimalloc.first_fit
    try:
        common.compile_text(text, pipeline)
    except common.Rejected as e:
        r.rejected = e.kind
        r.count("mini_rejected:" + e.kind + str(e)[:60])
        return
    if not minimalloc.PROBLEMS:
        r.rejected = "solver-not-called"
        return
    prob = minimalloc.PROBLEMS[-1]
    declared = [(b.start_time, b.end_time, b.size, b.alignment) for b in prob.buffers]
    grid = BOUNDS[tier]["grid"]
    nplace = 0
    r.nontrivial = any(k in ("v", "ll") for _, k in seq)
    for pl in valid_placements(prob.buffers, prob.capacity, grid):
        if only_placement is not None and list(pl) != list(only_placement):
            continue
        nplace += 1
        minimalloc.ORACLE[0] = lambda problem, pl=pl: list(pl)
        mod = common.compile_text(text, pipeline)
        ev, steps = run_output(mod)
        r.transitions += steps
        r.states += len(ev)
        r.validated += 1
        # true liveness from the executed trace: per base address range, indices of uses
        uses, base_of = {}, {}
        for t, e in enumerate(ev):
            if e[0] == "use":
                uses.setdefault(e[3], []).append(t)
                base_of[e[3]] = e[2]
        bad = None
        bufs = sorted(uses)
        for i, x in enumerate(bufs):
            for y in bufs[i + 1 :]:
                a, b_ = base_of[x], base_of[y]
                if a < b_ + SIZE and b_ < a + SIZE:  # address ranges intersect
                    ia, ib = uses[x], uses[y]
                    if not (max(ia) < min(ib) or max(ib) < min(ia)):
                        bad = f"interleaved: buffers #{x[1]} at {a:#x} and #{y[1]} at {b_:#x} overlap in memory but their uses interleave (events {ia} vs {ib})"
        if bad is None:
            for t, e in enumerate(ev):
                if e[0] == "dealloc" and any(t2 > t for t2 in uses.get(e[2], [])):
                    bad = f"early-dealloc: dealloc of buffer #{e[2][1]} at {e[1]:#x} (event {t}) precedes a later use of it or of a view of it (events {[t2 for t2 in uses[e[2]] if t2 > t]})"
                    break
        if bad:
            r.violate(key + "|" + bad.split(" ")[0], dict(case, placement=list(pl), declared=declared), f"{bad}; solver answer {list(pl)} is valid for the declared lifetimes {declared}; history {seq} (late={late}, mode={mode})")
            break
    r.count("solver_answers", nplace)
    r.obs = ("mini", nb, seq, late, mode, tuple(declared))
    r.sample = dict(kind="mini", program=text, declared_lifetimes=declared, solver_answers=nplace)


def eval_mini_mems(r, nb, seq, late, mode, mems, only_placement, tier):
    """buffers in several memory spaces: one solver problem per space; every combination of valid answers; every buffer must land inside the
    address window of its own memory space and live buffers must not overlap"""
    import minimalloc

    from xdsl.dialects.builtin import StringAttr

    text = mini_text(nb, seq, late)
    key = f"mini|{nb}|{seq}|{late}|{mode}|{mems}"
    case = dict(kind="mini", nb=nb, seq=seq, late=late, mode=mode, mems=list(mems), program=text)

    def compile_():
        # memref-to-snax only turns L1 allocations into snax.alloc; the memory space of the k-th snax.alloc (= buffer k) is then set to mems[k],
        # which is how a function with snax.alloc ops in several memory spaces reaches snax-allocate
        mod = common.compile_text(text, "memref-to-snax,canonicalize")
        allocs = [op for op in mod.walk() if op.name == "snax.alloc"]
        assert len(allocs) == nb
        for k, op in enumerate(allocs):
            op.properties["memory_space"] = StringAttr(mems[k])
        mod.verify()
        common.run_pipeline(mod, f"snax-allocate{{mode={mode}}}")
        return mod

    minimalloc.PROBLEMS.clear()
    minimalloc.ORACLE[0] = minimalloc.first_fit
    try:
        compile_()
    except common.Rejected as e:
        r.rejected = e.kind
        r.count("mini_rejected:" + e.kind + str(e)[:60])
        return
    probs = list(minimalloc.PROBLEMS)
    if not probs:
        r.rejected = "solver-not-called"
        return
    declared = [[(b.start_time, b.end_time, b.size, b.alignment) for b in p.buffers] for p in probs]
    # buffer ids change from compilation to compilation: a problem is recognised by the capacity of its memory space
    ids = [p.capacity for p in probs]
    if len(set(ids)) != len(ids):
        r.rejected = "ambiguous-problems"
        return
    grid = BOUNDS[tier]["grid"]
    r.nontrivial = len(probs) > 1
    r.count("solver_problems", len(probs))
    nplace = 0
    per_problem = [list(valid_placements(p.buffers, min(p.capacity, 8 * grid + SIZE), grid)) for p in probs]
    for combo in itertools.product(*per_problem):
        flat = [list(x) for x in combo]
        if only_placement is not None and flat != [list(x) for x in only_placement]:
            continue
        nplace += 1
        table = {i: list(pl) for i, pl in zip(ids, combo)}
        minimalloc.ORACLE[0] = lambda problem, table=table: table[problem.capacity]
        mod = compile_()
        ev, steps = run_output(mod)
        r.transitions += steps
        r.states += len(ev)
        r.validated += 1
        uses, base_of, mem_of = {}, {}, {}
        for t, e in enumerate(ev):
            if e[0] == "use":
                uses.setdefault(e[3], []).append(t)
                base_of[e[3]] = e[2] % (1 << 32)  # pointers are 32-bit values (an i32 constant above 2^31 prints as a negative number)
                mem_of[e[3]] = mems[seq[e[1] - 1][0]]
        bad = None
        for x in sorted(uses):
            lo, cap = MEM_WINDOWS[mem_of[x]]
            if not (lo <= base_of[x] and base_of[x] + SIZE <= lo + cap):
                bad = f"window: buffer #{x[1]} allocated in {mem_of[x]} is placed at {base_of[x]:#x}, outside that memory's address range [{lo:#x}, {lo + cap:#x})"
                break
        bufs = sorted(uses)
        if bad is None:
            for i, x in enumerate(bufs):
                for y in bufs[i + 1 :]:
                    a, b_ = base_of[x], base_of[y]
                    if a < b_ + SIZE and b_ < a + SIZE:
                        ia, ib = uses[x], uses[y]
                        if not (max(ia) < min(ib) or max(ib) < min(ia)):
                            bad = f"interleaved: buffers #{x[1]} at {a:#x} and #{y[1]} at {b_:#x} overlap in memory but their uses interleave (events {ia} vs {ib})"
        if bad is None:
            for t, e in enumerate(ev):
                if e[0] == "dealloc" and any(t2 > t for t2 in uses.get(e[2], [])):
                    bad = f"early-dealloc: dealloc of buffer #{e[2][1]} at {e[1]:#x} (event {t}) precedes a later use of it"
                    break
        if bad:
            r.violate(key + "|" + bad.split(" ")[0], dict(case, placement=flat, declared=declared), f"{bad}; solver answers {flat} are valid for the declared problems {declared}; history {seq} (late={late}, mode={mode}, memories {mems})")
            break
    r.count("solver_answers", nplace)
    r.obs = ("mini", nb, seq, late, mode, mems, repr(declared))
    r.sample = dict(kind="mini", program=text, declared_lifetimes=declared, solver_answers=nplace)


def evaluate(case) -> CaseResult:
    kind, p = case
    r = CaseResult()
    if kind == "size":
        eval_size(r, *p)
    elif kind == "static":
        eval_static(r, *p)
    else:
        eval_mini(r, *p)
    r.count("cases_" + kind)
    return r


def _t(x):
    return tuple(_t(i) for i in x) if isinstance(x, list) else x


def replay(case):
    r = CaseResult()
    if case["kind"] == "size":
        eval_size(r, *_t(case["args"]))
    elif case["kind"] == "static":
        eval_static(r, case["mem"], _t(case["seq"]))
    else:
        eval_mini(r, case["nb"], _t(case["seq"]), case["late"], case["mode"], mems=_t(case["mems"]) if case.get("mems") else None, only_placement=case.get("placement"))
    return r.violations
