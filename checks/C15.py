"""C15 — pipelined double-buffered loops equal the sequential loop.

Shape B. Loops of the recognised shape (index computations, then S = 2..4 barrier-separated stages alternating data-mover /
compute ops chained through local buffers) x (lb, ub, step) menu -> real construct-pipeline, pipeline-duplicate-buffers,
unroll-pipeline, dispatch-regions{nb_cores=2}. Per-core event lists (one interpretation per core id) are explored under ALL
interleavings between barriers. Oracle: every reachable outcome has, for every stage of every iteration, exactly the observed
inputs of the sequential loop (multiset over (tag, occurrence)), the same final contents of all function-visible tiles, touches
no tile outside the original iteration range, and no deadlock.
"""
from __future__ import annotations

import itertools

from mc import common
from mc.driver import CaseResult
from machines import cores as CM
from machines.ir import Interp, InterpError, StepBudget, UseBeforeDef, find_func
from machines.memview import View, handlers as mem_handlers

PID = "C15"
RULE = (
    "loops with S in {2,3,4} (thorough: 5) stages, first stage DM or compute (alternating), stage-0 input a tile of A indexed by the induction variable or the whole A, last "
    "output a tile of O or the whole O, optional extra read-only operand on a compute stage; the buffer between stage 0 and 1 a local allocation or a tile of an argument (variants mi..mwhole), an input tile selected by the loop's own lower-bound value (ilb), the loop as inner loop of a nest with outer trip count 2 / 3 merged by pipeline-canonicalize-for (nest2, nest3); bounds (0,N,1) for N in 0..6, (1,5,1), (0,6,2), (2,6,1), each with "
    "constant bounds or a run-time upper bound / lower bound / step; all interleavings of DM and compute core between barriers. distinct = distinct (loop, bounds, outcome set); "
    "non-trivial = the pipeline was constructed (IR changed)"
)
ASSUMPTIONS = [
    "whole-op atomicity; tiles of A / O are separate objects, local buffers are whole objects; a subview [i][1] denotes tile i",
    "function-visible state = tiles of A, O (and W); local (double-buffered) buffers are compared only through what ops observe",
]
BOUNDS = {"quick": dict(stages=[2, 3, 4], tiles=8), "thorough": dict(stages=[2, 3, 4, 5], tiles=8)}
CASE_TIMEOUT = 120
T = 8
MT1 = "memref<1xi32>"
MTT = f"memref<{T}xi32>"
SV = f"memref<1xi32, strided<[1], offset: ?>>"
LOOPS = [(0, n, 1) for n in range(0, 7)] + [(1, 5, 1), (0, 6, 2), (2, 6, 1)]
LOOPS_MORE = [(0, 7, 1), (0, 8, 1), (1, 1, 1), (3, 2, 1), (0, 7, 3), (1, 8, 2)]


# variants. alloc: the plain shape. mi/mc/mi2/mc2: the buffer between stage 0 and 1 is a tile of M (see build). lv: it is a local allocation that the consumer
# reads through a view taken outside the loop. late: the output subview is computed right before the last stage instead of with the other index computations.
# trail: a conditional copy follows the last barrier of the body.
# skip: the compute stage 2 additionally reads the buffer stage 0 wrote (producer and consumer two stages apart; needs S >= 3 and a compute stage 2)
# mwhole: stage 0 writes tile i of M, the compute stage 1 reads the WHOLE of M (one index-dependent and one loop-invariant view of one buffer)
# ilb: the input tile is selected by the very SSA value that is the loop's lower bound (a shared constant, as after CSE) instead of by %i
# nest2 / nest3: the loop is the inner loop of a nest with outer trip count 2 / 3 (tile index = 4 * outer + inner); pipeline-canonicalize-for runs
# first and merges the nest into one loop when the bounds are constant, lb = 0 and step = 1 (the other bounds stay nests and must be left intact)
MIDS = ["alloc", "mi", "mc", "mi2", "mc2", "lv", "late", "trail", "skip", "mwhole", "ilb", "nest2", "nest3"]
NEST_STRIDE = 4
SV0 = "memref<1xi32, strided<[1]>>"


def space(tier):
    out = []
    for S in BOUNDS[tier]["stages"]:
        for first in ("D", "C"):
            for inkind in ("tile", "whole"):
                for outkind in ("tile", "whole"):
                    for extra in (0, 1, 2):
                        for loop in LOOPS + (LOOPS_MORE if tier == "thorough" else []):
                            for dyn in (0, 1, 2, 4):
                                for mid in MIDS:
                                    if mid != "alloc" and tier == "quick" and (extra or dyn or loop[1] not in ((0, 1, 2, 3, 4) if mid.startswith("nest") else (0, 2, 3, 5))):
                                        continue
                                    if mid == "skip" and (S < 3 or first != "C"):
                                        continue
                                    if mid == "mwhole" and first != "D":
                                        continue
                                    if mid == "ilb" and inkind != "tile":
                                        continue
                                    if mid.startswith("nest") and (loop[1] > NEST_STRIDE or (inkind == "whole" and outkind == "whole")):
                                        continue
                                    if dyn in (2, 4) and tier == "quick" and (extra or loop not in ((0, 5, 1), (2, 6, 1), (0, 6, 2), (0, 0, 1))):
                                        continue
                                    out.append((S, first, inkind, outkind, extra, loop, dyn, mid))
    return out


def gen_op(kind, tag, ins, outs):
    """ins/outs: list of (ssa, type)"""
    if kind == "D":
        (s, st), (d, dt) = ins[0], outs[0]
        return [f'"memref.copy"({s}, {d}) {{verif.id = {tag} : i32}} : ({st}, {dt}) -> ()']
    maps = ", ".join(["affine_map<(d0) -> (d0)>"] * (len(ins) + len(outs)))
    i_s = ", ".join(s for s, _ in ins)
    i_t = ", ".join(t for _, t in ins)
    o_s, o_t = outs[0]
    blkargs = ", ".join(f"%x{tag}_{k} : i32" for k in range(len(ins) + 1))
    return [
        f'linalg.generic {{indexing_maps = [{maps}], iterator_types = ["parallel"]}} ins({i_s} : {i_t}) outs({o_s} : {o_t}) attrs = {{verif.id = {tag} : i32}} {{',
        f"^bb0({blkargs}):",
        f"  linalg.yield %x{tag}_0 : i32",
        "}",
    ]


def build(case):
    S, first, inkind, outkind, extra, (lb, ub, st), dyn, mid = case
    kinds = [first if k % 2 == 0 else ("C" if first == "D" else "D") for k in range(S)]
    lines = []
    args = [f"%A : {MTT}", f"%O : {MTT}", f"%W : {MT1}", f"%A1 : {MT1}", f"%O1 : {MT1}", f"%M : {MTT}"]
    # dyn: 0 all bounds constant; 1 / 2 / 4: the upper bound / lower bound / step is a function argument
    if dyn:
        args.insert(5, "%dynarg : index")
    # the buffer between stage 0 and stage 1: a local allocation, or a tile of the function argument M selected by the index computations
    # (mi: tile i, mc: the same tile 0 in every iteration; mi2 / mc2: producer and consumer use two separate subviews of that tile)
    for k in range(S - 1):
        if k == 0 and mid in ("mi", "mc", "mi2", "mc2", "lv", "mwhole"):
            continue
        lines.append(f"  %L{k} = memref.alloc() : {MT1}")
    if mid in ("mc", "mc2"):
        lines.append("  %cm = arith.constant 0 : index")
    if mid == "lv":
        lines.append(f"  %L0 = memref.alloc() : {MT1}")
        lines.append(f"  %lv = memref.subview %L0[0] [1] [1] : {MT1} to {SV0}")
    if mid == "trail":
        lines.append("  %true = arith.constant true")
    if extra == 2 and first == "D":
        lines.append(f"  %Lb = memref.alloc() : {MT1}")
    names = {}
    for bit, nm, val in ((2, "lb", lb), (1, "ub", ub), (4, "st", st)):
        if dyn == bit:
            names[nm] = "%dynarg"
        else:
            names[nm] = "%" + nm
            lines.append(f"  %{nm} = arith.constant {val} : index")
    iv = "%i"
    if mid.startswith("nest"):
        lines.append("  %olb = arith.constant 0 : index")
        lines.append(f"  %oub = arith.constant {int(mid[4:])} : index")
        lines.append("  %ost = arith.constant 1 : index")
        lines.append(f"  %ostride = arith.constant {NEST_STRIDE} : index")
        lines.append("  scf.for %o = %olb to %oub step %ost {")
        iv = "%idx"
    lines.append(f"  scf.for %i = {names['lb']} to {names['ub']} step {names['st']} {{")
    if mid.startswith("nest"):
        lines.append("    %row = arith.muli %o, %ostride : index")
        lines.append("    %idx = arith.addi %row, %i : index")
    # index ops
    src0 = ("%A1", MT1)
    dstl = ("%O1", MT1)
    if inkind == "tile":
        lines.append(f"    %tin = memref.subview %A[{names['lb'] if mid == 'ilb' else iv}] [1] [1] : {MTT} to {SV}")
        src0 = ("%tin", SV)
    if outkind == "tile":
        if mid != "late":
            lines.append(f"    %tout = memref.subview %O[{iv}] [1] [1] : {MTT} to {SV}")
        dstl = ("%tout", SV)
    if inkind == "whole" and outkind == "whole" and mid == "alloc":
        lines.append("    %dummy = arith.addi %i, %i : index")
    mid_w = mid_r = ("%L0", MT1)
    if mid == "lv":
        mid_r = ("%lv", SV0)
    if mid == "mwhole":
        lines.append(f"    %mw = memref.subview %M[%i] [1] [1] : {MTT} to {SV}")
        mid_w, mid_r = ("%mw", SV), ("%M", MTT)
    if mid in ("mi", "mc", "mi2", "mc2"):
        sel = "%i" if mid in ("mi", "mi2") else "%cm"
        lines.append(f"    %mw = memref.subview %M[{sel}] [1] [1] : {MTT} to {SV}")
        mid_w = mid_r = ("%mw", SV)
        if mid in ("mi2", "mc2"):
            lines.append(f"    %mr = memref.subview %M[{sel}] [1] [1] : {MTT} to {SV}")
            mid_r = ("%mr", SV)
    two_loads = extra == 2 and kinds[0] == "D" and S >= 2
    for k in range(S):
        ins = [src0 if k == 0 else mid_r if k == 1 else (f"%L{k-1}", MT1)]
        outs = [dstl if k == S - 1 else mid_w if k == 0 else (f"%L{k}", MT1)]
        if extra == 1 and kinds[k] == "C":
            ins.append(("%W", MT1))
        if two_loads and k == 1:
            ins.append(("%Lb", MT1))
        if mid == "skip" and k == 1:
            ins = [("%W", MT1)]
        if mid == "skip" and k == 2:
            ins.append(("%L0", MT1))
        if mid == "late" and outkind == "tile" and k == S - 1:
            lines.append(f"    %tout = memref.subview %O[%i] [1] [1] : {MTT} to {SV}")
        for l in gen_op(kinds[k], k + 1, ins, outs):
            lines.append("    " + l)
        if two_loads and k == 0:
            # a second load in the same stage, into its own local buffer
            for l in gen_op("D", 10, [("%W", MT1)], [("%Lb", MT1)]):
                lines.append("    " + l)
        lines.append('    "snax.cluster_sync_op"() : () -> ()')
    if mid == "trail":
        lines.append("    scf.if %true {")
        lines.append(f'      "memref.copy"(%W, %O1) {{verif.id = 20 : i32}} : ({MT1}, {MT1}) -> ()')
        lines.append("    }")
    lines.append("  }")
    if mid.startswith("nest"):
        lines.append("  }")
    text = "builtin.module {\nfunc.func @f(" + ", ".join(args) + ") {\n" + "\n".join(lines) + "\n  func.return\n}\n}\n"
    argv = ["A", "O", "W", "A1", "O1", "M"]
    if dyn:
        argv = argv[:5] + [{1: ub, 2: lb, 4: st}[dyn], "M"]
    return text, argv, kinds


def tiles_of(v):
    if v.buf[0] in ("A", "O", "M"):
        if len(v.sizes) != 1 or v.strides != [1] and v.sizes != [1]:
            raise InterpError(f"unexpected view {v}")
        return tuple((v.buf[0], v.offset + k) for k in range(v.sizes[0]))
    return (v.buf,)


def core_events(mod, argv, core):
    ev = []
    counts = {}
    nalloc = [0]

    def key_of(op):
        ident = op.attributes.get("verif.id")
        t = ident.value.data if ident is not None else -1
        counts[t] = counts.get(t, 0) + 1
        return (t, counts[t])

    def h_copy(it, op):
        s, d = it.get(op.operands[0]), it.get(op.operands[1])
        ev.append(("op", key_of(op), tiles_of(s), tiles_of(d), "copy" if len(tiles_of(s)) == 1 == len(tiles_of(d)) else "compute"))
        return []

    def h_generic(it, op):
        ins = [t for o in op.inputs for t in tiles_of(it.get(o))]
        outs = [t for o in op.outputs for t in tiles_of(it.get(o))]
        ev.append(("op", key_of(op), tuple(ins), tuple(outs), "compute"))
        return []

    def h_barrier(it, op):
        ev.append(("barrier",))
        return []

    def h_call(it, op):
        callee = op.callee.string_value()
        if callee == "snax_cluster_core_idx":
            return [core]
        raise InterpError("call " + callee)

    def h_alloc(it, op):
        nalloc[0] += 1
        return [View(("L", nalloc[0]), 4, 0, [1], [1], 0x9000 + 16 * nalloc[0])]

    h = dict(mem_handlers())
    h.update({"memref.copy": h_copy, "linalg.generic": h_generic, "snax.cluster_sync_op": h_barrier, "func.call": h_call, "memref.alloc": h_alloc})
    it = Interp(handlers=h, budget=100000)
    args = []
    for a in argv:
        if a == "A":
            args.append(View(("A", 0), 4, 0, [T], [1], 0x1000))
        elif a == "O":
            args.append(View(("O", 0), 4, 0, [T], [1], 0x2000))
        elif a == "M":
            args.append(View(("M", 0), 4, 0, [T], [1], 0x6000))
        elif a in ("W", "A1", "O1"):
            args.append(View((a, 0), 4, 0, [1], [1], {"W": 0x3000, "A1": 0x4000, "O1": 0x5000}[a]))
        else:
            args.append(a)
    it.run_func(find_func(mod, "f"), args)
    return ev, it.steps, nalloc[0]


PIPE = "construct-pipeline,pipeline-duplicate-buffers,unroll-pipeline"


def project(final):
    mem_t, obs_t = final
    mem = tuple((k, v) for k, v in mem_t if k[0] in ("A", "O", "W", "A1", "O1", "M"))
    return mem, obs_t


def evaluate(case) -> CaseResult:
    r = CaseResult()
    text, argv, kinds = build(case)
    S, first, inkind, outkind, extra, (lb, ub, st), dyn, mid = case
    try:
        base = common.parse(text)
        base.verify()
    except Exception as e:
        raise RuntimeError(f"generator bug: {e}\n{text}")
    out = base.clone()
    try:
        common.run_pipeline(out, ("pipeline-canonicalize-for," if mid.startswith("nest") else "") + PIPE)
    except Exception as e:
        r.rejected = "pipeline:" + type(e).__name__
        r.count("exc:" + type(e).__name__ + ":" + str(e)[:70])
        return r
    probe = base.clone()
    common.run_pipeline(probe, ("pipeline-canonicalize-for," if mid.startswith("nest") else "") + "construct-pipeline")
    constructed = any(op.name == "pipeline.pipeline" for op in probe.walk())
    r.nontrivial = constructed
    r.count("pipelines_constructed", int(constructed))
    try:
        common.run_pipeline(out, "dispatch-regions{nb_cores=2}")
    except Exception as e:
        r.rejected = "dispatch:" + type(e).__name__
        return r
    out_text = common.to_text(out)
    key = f"{case!r}"
    case_j = dict(case=case, input_ir=text, output_ir=out_text)
    try:
        ref_ev, s0, nal0 = core_events(base, argv, 0)
    except (InterpError, UseBeforeDef) as e:
        raise RuntimeError(f"reference execution failed: {e}\n{text}")
    init = {("W", 0): ("init", "W"), ("A1", 0): ("init", "A1"), ("O1", 0): ("init", "O1")}
    for t in range(-4, T + 6):
        init[("A", t)] = ("init", "A", t)
        init[("O", t)] = ("init", "O", t)
        init[("M", t)] = ("init", "M", t)
    for k in range(1, 2 * S + 2):
        init[("L", k)] = ("init", "L")
    ref = project(CM.sequential(ref_ev, init))
    lists = []
    try:
        for c in range(2):
            ev, s1, _ = core_events(out, argv, c)
            lists.append(ev)
            r.transitions += s1
    except UseBeforeDef as e:
        r.violate(key + "|use-before-def", case_j, f"use before def in the pipelined code: {e}; case {case}")
        return r
    # tiles outside the original iteration range
    legal = set(range(lb, ub, st))
    if mid.startswith("nest"):
        legal = {o * NEST_STRIDE + j for o in range(int(mid[4:])) for j in range(lb, ub, st)}
    legal = legal | {t[1] for e in ref_ev if e[0] == "op" for t in e[2] + e[3] if t[0] == "M"}
    for c, l in enumerate(lists):
        for e in l:
            if e[0] != "op":
                continue
            for tl, kindname, allowed in ((e[2], "reads", inkind), (e[3], "writes", outkind)):
                idxs = [t[1] for t in tl if t[0] in ("A", "O", "M")]
                if len(idxs) == 1 and idxs[0] not in legal:
                    r.violate(key + "|out-of-range", case_j, f"core {c}: op {e[1]} {kindname} tile {idxs[0]} which is outside the iteration range {sorted(legal)}; case {case}")
                    break
    # a tile far outside the range (already reported above) still needs an initial content for the exploration to continue
    for l in lists:
        for e in l:
            if e[0] == "op":
                for t in tuple(e[2]) + tuple(e[3]):
                    if t not in init and t[0] in ("A", "O", "M"):
                        init[t] = ("init",) + tuple(t)
    finals, problems, nstates, ntrans, multi = CM.explore(lists, init)
    r.states += nstates
    r.transitions += ntrans
    r.validated += 1
    r.count("states_with_two_cores_enabled", multi)
    kinds_seen = set()
    for kind, msg in problems:
        if kind not in kinds_seen:
            kinds_seen.add(kind)
            r.violate(key + "|" + kind, case_j, f"{kind}: {msg}; case {case}")
    proj = {project(f) for f in finals}
    bad = [f for f in proj if f != ref]
    if bad and "deadlock" not in kinds_seen:
        f = sorted(bad, key=repr)[0]
        r.violate(key + "|differs", case_j, f"{len(proj)} distinct outcomes; some interleaving gives: {_diff(ref, f)}; case {case}")
    r.obs = (case, len(proj))
    r.sample = dict(case=repr(case), input_ir=text, pipelined=constructed, reachable_states=nstates)
    return r


def _diff(ref, got):
    robs, gobs = dict(ref[1]), dict(got[1])
    for k in sorted(set(robs) | set(gobs)):
        if gobs.get(k) != robs.get(k):
            return f"stage/iteration {k} observes {gobs.get(k)} instead of {robs.get(k)}"
    rm, gm = dict(ref[0]), dict(got[0])
    for k in sorted(rm):
        if gm.get(k) != rm[k]:
            return f"final contents of {k} are {gm.get(k)} instead of {rm[k]}"
    return "outcome differs"


def _t(x):
    return tuple(_t(i) for i in x) if isinstance(x, list) else x


def replay(case):
    return evaluate(_t(case["case"])).violations
