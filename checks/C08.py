"""C08 — generated configuration values line up with field names.

Shape C: for every accelerator x streamer configuration of a menu and every marker stride pattern (all bounds / strides pairwise distinct so that a value
landing in a neighbouring register is visible; every temporal length 0..T; zero-pointer operands; reuse dims) the real convert_to_acc_ops is run on a real
snax_stream.streaming_region inside a module that declares the accelerator with generate_acc_op(). The constants feeding the accfg.setup are folded on the
IR machine and compared BY FIELD NAME with what each named register means; number of values == number of declared fields, names in declared order.
"""
from __future__ import annotations

import itertools

from mc import common
from mc.driver import CaseResult
from machines.ir import Interp, InterpError, UseBeforeDef, find_func, wrap

PID = "C08"
RULE = (
    "alu: 3 streamers, each varied over a menu (temporal dims 1,2,3,6 with flags all-n / leading r / one i; spatial dims (4,),(8,),(8,4); every subset of "
    "{address remap, channel mask, broadcast, transpose}) one at a time and all equal, x every temporal pattern length 0..T x zero-pointer choice; gemmx: default "
    "and n=4/16/6/1 (thorough: 1..17) geometries x kernels {mac, qmac(zero points), qmac->i8, qmac->rescale->i8 (1 and n channels), rescale only} x pattern variants; xdma: with and "
    "without channel/byte masks x extension subsets, and kernels handled by an extension (add, rescale down/up) x extension orders x masks listed first/last; phs: accelerators built from merge histories (0..4 switches). distinct = distinct (config, pattern, kernel); "
    "non-trivial = streamer has an option or pattern shorter than the hardware dimensionality"
)
ASSUMPTIONS = [
    "meaning of the streamer registers (snax.py field naming): <s>_ptr_low = base pointer (or the zero address for a zero-pointer operand), <s>_ptr_high = 0, "
    "<s>_sstride_j = spatial stride j, <s>_bound_i / <s>_tstride_i = temporal bound / stride i padded with 1 / 0, reuse dim with stride 0 collapsed to bound 1, "
    "channel mask all ones (0 for a zero-pointer operand), address remap 0, broadcast = 1 iff a spatial stride is 0",
    "kernel registers: loop counts = number of temporal steps of the stream (product of the bounds); gemmx csr0 = min<<24|max<<16|zp_out<<8|zp_in, subtractions = zp_a | zp_b<<8, "
    "shift_i = four 8-bit shifts, mult_i = multiplier i, bypassSIMD = 1 iff 32-bit output (snax_gemmx.py comments)",
    "transpose register: only its presence under the declared name is checked (hardware polarity not documented consistently)",
]
BOUNDS = {"quick": dict(), "thorough": dict()}
CASE_TIMEOUT = 60
PRIMES = [3, 5, 7, 11, 13, 17, 19, 23, 29, 31, 37, 41, 43, 47, 53, 59, 61, 67, 71, 73, 79, 83, 89, 97, 101, 103, 107, 109, 113, 127, 131, 137, 139, 149, 151, 157, 163, 167, 173, 179, 181, 191, 193, 197, 199]
ZERO_ADDRESS = 0x1000_0040
_LAST_MODULE = [None]  # the module run_convert worked on (for checks that continue lowering it)

# ------------------------------------------------------------------------------------------------ configs

TD = [("n",), ("n", "n"), ("r", "n", "n"), ("n", "i", "n"), ("n",) * 6]
SD = [(4,), (8,), (8, 4)]
OPTS = [tuple(c) for k in range(5) for c in itertools.combinations(["a", "c", "b", "t"], k)]
MENU = [(t, s, o) for t in TD for s in SD for o in OPTS]
BASE = (("n",), (4,), ())


def build_streamer(spec, writer=False):
    from snaxc.accelerators.streamers import streamers as S
    from snaxc.accelerators.streamers.extensions import TransposeExtension

    t, s, o = spec
    opts = [{"a": S.HasAddressRemap, "c": S.HasChannelMask, "b": S.HasBroadcast, "t": TransposeExtension}[c]() for c in o]
    return S.Streamer(S.StreamerType.Writer if writer else S.StreamerType.Reader, list(t), list(s), opts)


def space(tier):
    cases = []
    thin = 1 if tier == "thorough" else 3
    for i, m in enumerate(MENU):
        if i % thin and len(m[2]) not in (0, 4):
            continue
        T = len(m[0])
        for L in sorted({0, 1, T // 2, T}):
            if L > T:
                continue
            for zero in (None, 0, 1):
                for pos in (0, 1, 2, 3):
                    cfg = [BASE, BASE, BASE]
                    if pos == 3:
                        cfg = [m, m, m]
                    else:
                        cfg[pos] = m
                    cases.append(("alu", tuple(cfg), L, zero))
    for geom in (8, 4, 16, 6, 1) if tier == "quick" else range(1, 18):
        for kern in ("mac", "qmac", "qmac_i8", "qmac_rescale1", "qmac_rescaleN", "rescale_only"):
            for var in (0, 1, 2):
                cases.append(("gemmx", geom, kern, var))
        # more output channels than the array has columns: the accelerator is launched once per group of n channels, the shift / multiplier
        # registers are re-programmed in the launch lowering (checked on the CSR machine after convert-accfg-to-csr)
        if geom == 8:
            for kern in ("qmac_rescale2N", "qmac_rescale3N", "qmac_rescale4N"):
                cases.append(("gemmx", geom, kern, 0))
                cases.append(("gemmx", geom, kern, 3))  # var 3: two tiles with dedup in between (see gemmx_launch_level)
            # non-square arrays: the number of channel groups follows n, not m or k
            for g3 in ((16, 8, 8), (4, 8, 8), (8, 4, 8), (8, 8, 16), (16, 4, 8)):
                for kern in ("qmac_rescale2N", "qmac_rescale3N"):
                    cases.append(("gemmx", g3, kern, 0))
    for chan, byte in itertools.product([True, False], repeat=2):
        subsets = [(), (0,), (5,), (3, 4), tuple(range(7))]
        if tier == "thorough":
            subsets = [c for k in range(8) for c in itertools.combinations(range(7), k)]
        for ex in subsets:
            for L in (0, 2, 5) if tier == "quick" else range(6):
                cases.append(("xdma", chan, byte, ex, L))
        # kernels handled by an extension (add: i32; rescale down: i32 -> i8; rescale up: i8 -> i32) x option order (extensions first / masks first)
        ksubsets = [(5,), (3,), (4,), (0, 5), (5, 3), (3, 4, 5), tuple(range(7)), (6, 5, 4, 3, 2, 1, 0)]
        if tier == "thorough":
            ksubsets += [c for k in (2, 3) for c in itertools.permutations((1, 3, 4, 5), k)]
        for ex in ksubsets:
            for kern in ("add", "rdown", "rup"):
                for order in (0, 1):
                    cases.append(("xdma", chan, byte, ex, 2, kern, order))
    for accname in ("snax_hwpe_mult", "snax_alu"):
        for n in (4, 16, 20, 64):
            for dyn in (0, 1):
                for offs in ((0, 0, 0), (3, 0, 0), (0, 5, 0), (0, 0, 7), (1, 2, 3)):
                    cases.append(("legacy", accname, n, dyn, offs))
    for (I, J, K) in [(1, 1, 1), (3, 2, 5), (2, 5, 3), (5, 3, 2), (7, 1, 4)]:
        for (sa, sb, sc) in ((None, None, None), (200, 300, 400)):
            for (oa, ob) in ((0, 0), (3, 5)):
                cases.append(("gemmini", I, J, K, sa or K * 16, sb or J * 16, sc or J * 16, oa, ob))
    hists = [(0,), (0, 1), (0, 7), (2, 9, 14), (0, 1, 7, 20)]
    if tier == "thorough":
        hists += [(a, b_) for a in range(0, 24, 3) for b_ in range(1, 24, 4)] + [(1, 5, 9), (3, 3, 8), (0, 4, 11, 19), (2, 6, 10, 14, 18)]
    for h in hists:
        for k in range(len(h)):
            for L in (1, 2):
                cases.append(("phs", h, k, L))
    return cases


# ------------------------------------------------------------------------------------------------ helpers


def marker_pattern(streamer, L, base, zero_spatial=False, reuse_zero=True):
    """pattern with L temporal dims, full spatial dims; all values distinct primes taken from PRIMES[base:]"""
    p = iter(PRIMES[base:])
    ub = [next(p) for _ in range(L)]
    ts = [next(p) * 8 for _ in range(L)]
    ss = [next(p) * 8 for _ in range(len(streamer.spatial_dims))]
    for i, f in enumerate(streamer.temporal_dims[:L]):
        if str(f) == "i":
            ts[i] = 0
        if str(f) == "r" and reuse_zero:
            ts[i] = 0
    if zero_spatial and ss:
        ss[-1] = 0
    return ub, ts, ss


def pat_text(ub, ts, ss):
    return f"#snax_stream.stride_pattern<ub = [{', '.join(map(str, ub))}], ts = [{', '.join(map(str, ts))}], ss = [{', '.join(map(str, ss))}]>"


def expected_streamer_fields(names, streamers, patterns, pointers, zero_flags):
    exp = {}
    from snaxc.accelerators.streamers import streamers as S

    for name, st, (ub, ts, ss), ptr, zero in zip(names, streamers, patterns, pointers, zero_flags):
        exp[f"{name}_ptr_low"] = ZERO_ADDRESS if zero else ptr
        exp[f"{name}_ptr_high"] = 0
        for j in range(len(st.spatial_dims)):
            exp[f"{name}_sstride_{j}"] = ss[j]
        for i, f in enumerate(st.temporal_dims):
            b = ub[i] if i < len(ub) else 1
            t = ts[i] if i < len(ts) else 0
            if str(f) == "r" and b > 1 and t == 0:
                b = 1
            exp[f"{name}_bound_{i}"] = b
            exp[f"{name}_tstride_{i}"] = t
        onames = {type(o).__name__ for o in st.opts}
        if "HasAddressRemap" in onames:
            exp[f"{name}_address_remap"] = 0
        if "HasChannelMask" in onames:
            exp[f"{name}_channel_mask"] = 0 if zero else -1
        if "TransposeExtension" in onames:
            exp[f"{name}_transpose"] = None  # presence only
        if "HasBroadcast" in onames:
            exp[f"{name}_broadcast"] = 1 if any(s == 0 for s in ss) else 0
    return exp


def run_convert(acc, module_text, key, case_j, r):
    """parse a module holding a streaming region, run the real convert_to_acc_ops, fold the setup values. Returns (names, values) or None"""
    from snaxc.dialects import accfg

    try:
        mod = common.parse(module_text)
        mod.verify()
    except Exception as e:
        r.rejected = "input-invalid:" + type(e).__name__
        r.count("input_invalid:" + str(e)[:80])
        return None
    region = None
    for op in mod.walk():
        if op.name == "snax_stream.streaming_region":
            region = op
    try:
        ops = list(acc.convert_to_acc_ops(region))
    except (NotImplementedError, AssertionError, IndexError, KeyError, ValueError) as e:
        r.rejected = "convert:" + type(e).__name__
        r.count("convert_rejected:" + type(e).__name__ + ":" + str(e)[:60])
        return None
    blk = region.parent_block()
    blk.insert_ops_before(ops, region)
    _LAST_MODULE[0] = mod
    setup = next((o for o in ops if isinstance(o, accfg.SetupOp)), None)
    if setup is None:
        r.rejected = "no-setup"
        return None
    names = [p.data for p in setup.param_names]
    if len(names) != len(setup.values):
        r.violate(key + "|count", case_j, f"{len(setup.values)} values were generated for {len(names)} declared fields of {acc.name}")
        return None
    h = {"snax_stream.streaming_region": lambda it, op: [], "accfg.setup": lambda it, op: [("state",)], "accfg.launch": lambda it, op: [("tok",)], "accfg.await": lambda it, op: []}
    it = Interp(handlers=h, budget=20000)
    f = find_func(mod, "f")
    args = [0x1000 * (i + 1) + 0x40000 for i in range(len(f.body.block.args))]
    try:
        it.run_func(f, args)
    except (UseBeforeDef, InterpError) as e:
        r.violate(key + "|exec", case_j, f"generated setup code cannot be evaluated: {e}")
        return None
    vals = [it.get(v) for v in setup.values]
    r.transitions += it.steps
    # declared order
    decl = acc.generate_acc_op().field_names()
    if tuple(names) != tuple(decl):
        r.violate(key + "|names", case_j, f"setup field names {names} differ from the declared fields {list(decl)}")
    return names, vals, args


def compare(r, key, case_j, names, vals, exp, what):
    got = dict(zip(names, vals))
    for k, want in exp.items():
        if k not in got:
            r.violate(key + "|missing", case_j, f"{what}: no value for declared field {k}")
            return
        if want is None:
            continue
        if wrap(got[k], 32) != wrap(want, 32):
            # which other field holds the expected value? (diagnostic)
            other = [n for n, v in got.items() if wrap(v, 32) == wrap(want, 32) and n != k][:3]
            r.violate(key + "|value", case_j, f"{what}: field {k} receives {got[k]} but means {want}" + (f" (that value went to {other})" if other else ""))
            return


def region_text(acc_name, decl, nptr, zero_idx, patterns, nin, nout, body, extra_args=""):
    args = ", ".join(f"%p{i} : index" for i in range(nptr))
    pre = ""
    ops = []
    for i in range(nptr):
        if zero_idx is not None and i == zero_idx:
            pre += f"  %zp{i} = arith.constant 0 : index\n"
            ops.append(f"%zp{i}")
        else:
            ops.append(f"%p{i}")
    pats = ", ".join(pat_text(*p) for p in patterns)
    return (
        "builtin.module {\n  " + decl + "\nfunc.func @f(" + args + extra_args + ") {\n" + pre
        + f'  "snax_stream.streaming_region"({", ".join(ops)}) <{{stride_patterns = [{pats}], accelerator = "{acc_name}", operandSegmentSizes = array<i32: {nin}, {nout}>}}> ({{\n'
        + body + "  }) : (" + ", ".join(["index"] * nptr) + ") -> ()\n  func.return\n}\n}\n"
    )


# ------------------------------------------------------------------------------------------------ ALU


def eval_alu(r, cfg, L, zero):
    from snaxc.accelerators.snax_alu import SNAXAluAccelerator
    from snaxc.accelerators.streamers import streamers as S

    streamers = [build_streamer(cfg[0]), build_streamer(cfg[1]), build_streamer(cfg[2], True)]
    acc = SNAXAluAccelerator(S.StreamerConfiguration(streamers))
    decl = common.to_text(acc.generate_acc_op())
    pats = []
    for i, st in enumerate(streamers):
        Li = min(L, len(st.temporal_dims))
        pats.append(marker_pattern(st, Li, 12 * i, zero_spatial=(i == 1)))
    body = (
        "  ^bb0(%s0 : !dart.stream<i64>, %s1 : !dart.stream<i64>, %s2 : !dart.stream<i64>):\n"
        '    %g = "dart.generic"(%s0, %s1) <{library_call = "snax_alu"}> ({\n    ^bb1(%e0 : i64, %e1 : i64, %e2 : i64):\n      %k = kernel.add %e0, %e1 : i64, i64 -> i64\n      dart.yield %k : i64\n'
        "    }) : (!dart.stream<i64>, !dart.stream<i64>) -> !dart.stream<i64>\n    dart.yield %g : !dart.stream<i64>\n"
    )
    text = region_text("snax_alu", decl, 3, zero, pats, 2, 1, body)
    key = f"alu|{cfg}|{L}|{zero}"
    case_j = dict(kind="alu", cfg=cfg, L=L, zero=zero)
    res = run_convert(acc, text, key, case_j, r)
    r.obs = ("alu", cfg, L, zero)
    r.nontrivial = any(c != BASE for c in cfg) or L == 0
    r.states = 1
    r.sample = dict(kind="alu", streamers=[repr(c) for c in cfg], patterns=[pat_text(*p) for p in pats])
    if res is None:
        return
    names, vals, args = res
    r.validated = 1
    zero_flags = [zero == i for i in range(3)]
    exp = expected_streamer_fields(["a", "b", "c"], streamers, pats, args[:3], zero_flags)
    exp["alu_mode"] = 0
    steps = 1
    for b in pats[0][0]:
        steps *= b
    exp["loop_bound_alu"] = steps
    compare(r, key, case_j, names, vals, exp, f"snax_alu {cfg} pattern length {L}")


# ------------------------------------------------------------------------------------------------ gemmx


def eval_gemmx(r, geom, kern, var):
    from snaxc.accelerators import snax_gemmx as GX

    if isinstance(geom, tuple):
        # non-square array (m, n, k): the per-column registers and the channel groups follow n
        acc = GX.SNAXGEMMXAccelerator(GX.default_streamer, m=geom[0], n=geom[1], k=geom[2])
        geom_in, geom = geom, geom[1]
    else:
        acc = GX.SNAXGEMMXAccelerator(GX.default_streamer, m=geom, n=geom, k=geom)
        geom_in = geom
    decl = common.to_text(acc.generate_acc_op())
    sts = list(acc.streamer_config.data.streamers)
    var_in = var
    if var == 3:
        var = 0  # two-tile variant of the channel-group kernels: same patterns as var 0
    groups = {"qmac_rescale2N": 2, "qmac_rescale3N": 3, "qmac_rescale4N": 4}.get(kern, 0)
    i8 = kern in ("qmac_i8", "qmac_rescale1", "qmac_rescaleN", "rescale_only") or groups
    # patterns per streamer a, b, d8, c, d32
    pa = marker_pattern(sts[0], 3 + var, 0)
    if groups:
        # the number of output tiles must be a multiple of the number of channel groups
        pa = ([3, 5, groups], pa[1], pa[2])
    pb = marker_pattern(sts[1], 3, 10)
    out_ub = [pa[0][1], pa[0][2]] if var == 0 else [pa[0][1]]
    # output pattern: reduction dim first with stride 0 (reuse), then the non-reduction dims
    pout_ub = [pa[0][0]] + out_ub
    pout_ts = [0] + [PRIMES[30 + i] * 8 for i in range(len(out_ub))]
    empty3 = ([0, 0, 0], [0, 0, 0], [0])
    empty32 = ([0, 0, 0], [0, 0, 0], [0, 0])
    pc = (list(pout_ub), list(pout_ts), [8, 64])
    if i8:
        pd8 = (list(pout_ub), list(pout_ts), [8])
        pd32 = empty32
    else:
        pd8 = empty3
        pd32 = (list(pout_ub), list(pout_ts), [8, 64])
    zp = (3, -5)
    rs = dict(input_zp=-7, output_zp=9, max_int=127, min_int=-128, shift=[11], mult=[1234567])
    if kern == "qmac_rescaleN" or groups:
        nch = geom * max(groups, 1)
        rs = dict(input_zp=-7, output_zp=9, max_int=100, min_int=-100, shift=[10 + i for i in range(nch)], mult=[1000 + 7 * i for i in range(nch)])
    otype = "i8" if i8 else "i32"
    extra = ""
    if kern == "rescale_only":
        body = (
            "  ^bb0(%s0 : !dart.stream<i32>, %s1 : !dart.stream<i8>):\n"
            f'    %g = "dart.generic"(%s0) <{{library_call = "snax_gemmx"}}> ({{\n    ^bb1(%e0 : i32, %e1 : i8):\n      %k = kernel.rescale %e0 {{input_zp = {rs["input_zp"]} : i32, output_zp = {rs["output_zp"]} : i32, multiplier = array<i32: {rs["mult"][0]}>, shift = array<i32: {rs["shift"][0]}>, max_int = {rs["max_int"]} : i32, min_int = {rs["min_int"]} : i32, double_round = true}} : (i32) -> i8\n      dart.yield %k : i8\n'
            "    }) : (!dart.stream<i32>) -> !dart.stream<i8>\n    dart.yield %g : !dart.stream<i8>\n"
        )
    else:
        q = kern.startswith("qmac")
        kop = "kernel.qmac %e0, %e1 zp_lhs : %e2 zp_rhs : %e3 : i8, i8, i32, i32 -> i32" if q else "kernel.mac %e0, %e1 : i8, i8 -> i32"
        bargs = "%e0 : i8, %e1 : i8, %e2 : i32, %e3 : i32, %e4 : i32" if q else "%e0 : i8, %e1 : i8, %e4 : i32"
        gin = "%s0, %s1, %za, %zb" if q else "%s0, %s1"
        gty = "!dart.stream<i8>, !dart.stream<i8>, i32, i32" if q else "!dart.stream<i8>, !dart.stream<i8>"
        extra = ", %za : i32, %zb : i32" if q else ""
        body = (
            f"  ^bb0(%s0 : !dart.stream<i8>, %s1 : !dart.stream<i8>, %s2 : !dart.stream<{otype}>):\n"
            f'    %g = "dart.generic"({gin}) <{{library_call = "snax_gemmx"}}> ({{\n    ^bb1({bargs}):\n      %k = {kop}\n      dart.yield %k : i32\n'
            f"    }}) : ({gty}) -> !dart.stream<i32>\n"
        )
        if kern in ("qmac_rescale1", "qmac_rescaleN") or groups:
            body += (
                f'    %g2 = "dart.generic"(%g) <{{library_call = "snax_gemmx"}}> ({{\n    ^bb2(%f0 : i32, %f1 : i8):\n      %k2 = kernel.rescale %f0 {{input_zp = {rs["input_zp"]} : i32, output_zp = {rs["output_zp"]} : i32, multiplier = array<i32: {", ".join(map(str, rs["mult"]))}>, shift = array<i32: {", ".join(map(str, rs["shift"]))}>, max_int = {rs["max_int"]} : i32, min_int = {rs["min_int"]} : i32, double_round = true}} : (i32) -> i8\n      dart.yield %k2 : i8\n'
                "    }) : (!dart.stream<i32>) -> !dart.stream<i8>\n    dart.yield %g2 : !dart.stream<i8>\n"
            )
        elif kern == "qmac_i8":
            body += (
                '    %g2 = "dart.generic"(%g) <{library_call = "snax_gemmx"}> ({\n    ^bb2(%f0 : i32, %f1 : i8):\n      %k2 = arith.trunci %f0 : i32 to i8\n      dart.yield %k2 : i8\n'
                "    }) : (!dart.stream<i32>) -> !dart.stream<i8>\n    dart.yield %g2 : !dart.stream<i8>\n"
            )
        else:
            body += "    dart.yield %g : !dart.stream<i32>\n"
    pats = [pa, pb, pd8, pc, pd32]
    if kern == "rescale_only":
        pats = [(pa[0][:3], [0] * 3, [8]), (pa[0][:3], [0] * 3, [8]), (pa[0][:3], pa[1][:3], [8]), (pa[0][:3], [t + 8 for t in pa[1][:3]], [8, 64]), empty32]
    text = region_text("snax_gemmx", decl, 5, 3 if kern != "rescale_only" else None, pats, 5, 0, body, extra)
    key = f"gemmx|{geom_in}|{kern}|{var_in}"
    case_j = dict(kind="gemmx", geom=geom_in, kern=kern, var=var_in)
    res = run_convert(acc, text, key, case_j, r)
    r.obs = ("gemmx", geom_in, kern, var_in)
    r.states = 1
    r.sample = dict(kind="gemmx", n=geom, kernel=kern, patterns=[pat_text(*p) for p in pats])
    if res is None:
        return
    names, vals, args = res
    r.validated = 1
    got = dict(zip(names, vals))
    zero_flags = [False, False, False, kern != "rescale_only", False]
    exp = expected_streamer_fields(["a", "b", "c", "d", "e"], sts, pats, args[:5], zero_flags)
    if kern == "rescale_only":
        exp = {k: v for k, v in exp.items() if not k.startswith(("a_ptr", "b_ptr"))}
    compare(r, key, case_j, names, vals, exp, f"snax_gemmx n={geom} {kern}")
    if r.violations:
        return
    steps = 1
    for b in pats[0][0]:
        steps *= b
    kexp = {}
    if kern != "rescale_only":
        M = 1
        for b, t in zip(pout_ub, pout_ts):
            if t != 0:
                M *= b
        kexp["M"], kexp["N"], kexp["K"] = M, 1, steps // M
        if got["K"] * got["N"] * got["M"] != steps:
            r.violate(key + "|knm", case_j, f"K*N*M = {got['K']}*{got['N']}*{got['M']} but stream A performs {steps} temporal steps")
            return
        kexp["bypassSIMD"] = 0 if i8 else 1
        if kern.startswith("qmac"):
            za, zb = args[5], args[6]
            kexp["subtractions"] = (za & 0xFF) | ((zb & 0xFF) << 8)
        else:
            kexp["subtractions"] = 0
        if i8:
            kexp["temporal_loop_bound"] = M
    else:
        kexp["bypassSIMD"] = 0
        kexp["temporal_loop_bound"] = steps
        kexp["M"] = steps
    if kern in ("qmac_rescale1", "qmac_rescaleN", "rescale_only") or groups:
        kexp["csr0"] = ((rs["min_int"] & 0xFF) << 24) | ((rs["max_int"] & 0xFF) << 16) | ((rs["output_zp"] & 0xFF) << 8) | (rs["input_zp"] & 0xFF)
        # double_round is an i1 attribute: the installed xDSL normalises 'true' to -1, the flag is its lowest bit
        if got.get("csr1", 0) & 1 != 1:
            r.violate(key + "|value", case_j, f"snax_gemmx n={geom} {kern}: csr1 (double_round) = {got.get('csr1')} does not have the flag set")
            return
        shifts = rs["shift"] if len(rs["shift"]) > 1 else rs["shift"] * geom
        mults = rs["mult"] if len(rs["mult"]) > 1 else rs["mult"] * geom
        for i in range(-(-geom // 4)):
            grp = shifts[4 * i : 4 * i + 4]
            exp = sum((s & 0xFF) << (8 * j) for j, s in enumerate(grp))
            # a partial last group (n not a multiple of 4): the bytes of channels that do not exist are don't-care
            mask = (1 << (8 * len(grp))) - 1
            kexp[f"shift_{i}"] = (got.get(f"shift_{i}", 0) & ~mask & 0xFFFFFFFF) | exp
        for i in range(geom):
            kexp[f"mult_{i}"] = mults[i]
    compare(r, key, case_j, names, vals, kexp, f"snax_gemmx n={geom} {kern} kernel registers")
    if groups and not r.violations:
        if var_in == 0:
            gemmx_launch_level(r, acc, key, case_j, geom, groups, rs, kexp["M"])
        else:
            gemmx_launch_level(r, acc, key, case_j, geom, groups, rs, kexp["M"], tiles=2)


def gemmx_launch_level(r, acc, key, case_j, geom, groups, rs, m_total, tiles=1):
    """channel groups: after the real convert-accfg-to-csr the code must launch the streamers once and the array once per group; at the i-th array launch the
    shift / multiplier registers hold group i's values and M / temporal_loop_bound the per-group tile count; every array launch is awaited"""
    from machines.csr import CsrMachine

    mod = _LAST_MODULE[0]
    # the real convert-linalg-to-accfg replaces the streaming region by the accelerator ops; run_convert inserted them in front of it.
    # tiles = 2: the same operation twice in a row (second tile), with cse + state tracing + dedup in front of the CSR lowering, so that
    # the second setup only carries what the compiler believes has changed
    for op in list(mod.walk()):
        if op.name == "snax_stream.streaming_region":
            if tiles == 2:
                op.parent_block().insert_ops_before(list(acc.convert_to_acc_ops(op)), op)
            op.detach()
            op.erase()
    # convert-accfg-to-csr takes the accelerator from the context's registry: let it find THIS instance (geometry) for the duration of the lowering
    reg = common.ctx()._registered_accelerators
    saved = reg["snax_gemmx"]
    reg["snax_gemmx"] = lambda: acc
    try:
        common.run_pipeline(mod, ("cse,accfg-trace-states,accfg-dedup," if tiles == 2 else "") + "convert-accfg-to-csr")
    except Exception as e:
        r.count("launch_level_rejected:" + type(e).__name__ + ":" + str(e)[:60])
        return
    finally:
        reg["snax_gemmx"] = saved
    decl = acc.generate_acc_op()
    addr = {k: v.value.data for k, v in decl.field_items()}
    laddr = {k: v.value.data for k, v in decl.launch_field_items()}
    barrier = decl.barrier.value.data
    cm = CsrMachine(poll=lambda a: 0)
    h = dict(cm.handlers())
    h["snax_stream.streaming_region"] = lambda it, op: []
    it = Interp(handlers=h, budget=50000)
    f = find_func(mod, "f")
    try:
        it.run_func(f, [0x1000 * (i + 1) + 0x40000 for i in range(len(f.body.block.args))])
    except (UseBeforeDef, InterpError) as e:
        r.violate(key + "|launch-exec", case_j, f"lowered launch code cannot be executed: {e}")
        return
    r.count("launch_level_checked")
    regs, launches, streamer_launches, awaited = {}, [], 0, 0
    for ev in cm.events:
        r.transitions += 1
        if ev[0] == "w":
            if ev[1] == laddr["launch_gemmx"]:
                launches.append(dict(regs))
            elif ev[1] == laddr["launch_streamer"]:
                if len(launches) != streamer_launches * groups:
                    r.violate(key + "|launch-order", case_j, f"streamer launch {streamer_launches} comes after {len(launches)} array launches")
                    return
                streamer_launches += 1
            else:
                regs[ev[1]] = ev[2]
        elif ev[0] == "r" and ev[1] == barrier and ev[2] == 0 and len(launches) > awaited:
            awaited = len(launches)
    bad = None
    if len(launches) != groups * tiles:
        bad = f"{len(launches)} array launches for {groups} channel groups x {tiles} tiles"
    elif streamer_launches != tiles:
        bad = f"{streamer_launches} streamer launches for {tiles} tiles"
    elif awaited != groups * tiles:
        bad = f"only {awaited} of {groups * tiles} array launches are followed by an await"
    else:
        for j, snap in enumerate(launches):
            i = j % groups
            sh, mu = rs["shift"][i * geom : (i + 1) * geom], rs["mult"][i * geom : (i + 1) * geom]
            want = {f"mult_{j}": mu[j] for j in range(geom)}
            for j in range(0, geom, 4):
                want[f"shift_{j // 4}"] = sum((x & 0xFF) << (8 * k) for k, x in enumerate(sh[j : j + 4]))
            want["M"] = want["temporal_loop_bound"] = m_total // groups
            for name, v in want.items():
                if wrap(snap.get(addr[name], None) or 0, 32) != wrap(v, 32):
                    bad = f"at array launch {j} (tile {j // groups}, group {i}) register {name} holds {snap.get(addr[name])} but group {i} needs {v}"
                    break
            if bad:
                break
    if bad:
        r.violate(key + f"|launch-groups{tiles}", case_j, f"snax_gemmx n={geom}, {groups} channel groups, {tiles} tile(s): {bad}")


# ------------------------------------------------------------------------------------------------ legacy linalg.generic lowerings (snax_hwpe_mult, snax_alu)


def eval_legacy(r, accname, n, dyn, offs):
    """linalg.generic with library_call = <acc> on 1-D memrefs (static / dynamic size, optional element offset per operand through the strided layout):
    Accelerator.convert_to_acc_ops builds the setup from pointer, offset and size queries"""
    from machines.memview import View, handlers as mem_handlers

    acc = common.ctx().get_acc(accname)
    el, w = ("i32", 4) if accname == "snax_hwpe_mult" else ("i64", 8)
    sz = "?" if dyn else str(n)
    tys = [f"memref<{sz}x{el}, strided<[1], offset: {o}>>" if o else f"memref<{sz}x{el}>" for o in offs]
    body = f"%r = arith.muli %x, %y : {el}" if accname == "snax_hwpe_mult" else f"%r = arith.addi %x, %y : {el}"
    text = (
        "builtin.module {\n  " + common.to_text(acc.generate_acc_op()) + f"\nfunc.func @f(%a : {tys[0]}, %b : {tys[1]}, %o : {tys[2]}) {{\n"
        f'  linalg.generic {{indexing_maps = [affine_map<(d0) -> (d0)>, affine_map<(d0) -> (d0)>, affine_map<(d0) -> (d0)>], iterator_types = ["parallel"], library_call = "{accname}"}} '
        f"ins(%a, %b : {tys[0]}, {tys[1]}) outs(%o : {tys[2]}) {{\n  ^bb0(%x : {el}, %y : {el}, %z : {el}):\n    {body}\n    linalg.yield %r : {el}\n  }}\n  func.return\n}}\n}}\n"
    )
    key = f"legacy|{accname}|{n}|{dyn}|{offs}"
    case_j = dict(kind="legacy", acc=accname, n=n, dyn=dyn, offs=list(offs))
    r.obs = ("legacy", accname, n, dyn, offs)
    r.states = 1
    r.nontrivial = any(offs) or dyn
    r.sample = dict(kind="legacy", accelerator=accname, program=text)
    try:
        mod = common.compile_text(text, "convert-linalg-to-accfg")
    except common.Rejected as e:
        r.rejected = e.kind
        r.count("legacy_rejected:" + str(e)[:70])
        return
    setup = next((op for op in mod.walk() if op.name == "accfg.setup"), None)
    if setup is None:
        r.rejected = "no-setup"
        return
    names = [p.data for p in setup.param_names]
    h = dict(mem_handlers())
    h.update({"accfg.setup": lambda it, op: [("state",)], "accfg.launch": lambda it, op: [("tok",)], "accfg.await": lambda it, op: []})
    it = Interp(handlers=h, budget=20000)
    bases = [0x10000, 0x20000, 0x30000]
    views = [View((nm, 0), w, o, [n], [1], base) for nm, o, base in zip("abo", offs, bases)]
    try:
        it.run_func(find_func(mod, "f"), views)
    except (UseBeforeDef, InterpError) as e:
        r.violate(key + "|exec", case_j, f"generated setup code cannot be evaluated: {e}")
        return
    vals = [it.get(v) for v in setup.values]
    r.validated = 1
    r.transitions += it.steps
    decl = acc.generate_acc_op().field_names()
    if tuple(names) != tuple(decl):
        r.violate(key + "|names", case_j, f"setup field names {names} differ from the declared fields {list(decl)}")
        return
    ptr = [base + o * w for base, o in zip(bases, offs)]
    if accname == "snax_hwpe_mult":
        exp = {"A": ptr[0], "B": ptr[1], "O": ptr[2], "vector_length": n, "nr_iters": 1, "mode": 1}
    else:
        exp = {"alu_mode": 0, "loop_bound_alu": n // 4}
        for nm, p_ in zip("abc", ptr):
            exp.update({f"{nm}_ptr_low": p_, f"{nm}_ptr_high": 0, f"{nm}_sstride_0": 8, f"{nm}_bound_0": n // 4, f"{nm}_tstride_0": 32})
    got = dict(zip(names, vals))
    if accname == "snax_hwpe_mult" and n != 1 and wrap(got["vector_length"], 32) == exp["nr_iters"] and wrap(got["nr_iters"], 32) == exp["vector_length"]:
        # one call site, one symptom, whatever the input: a single violation class (see known_findings.json)
        r.violate(
            "legacy|snax_hwpe_mult|swapped:vector_length<->nr_iters", case_j,
            f"snax_hwpe_mult linalg.generic lowering (n={n}, offsets {offs}): the field named vector_length receives the iteration count {got['vector_length']} and the "
            f"field named nr_iters receives the vector length {got['nr_iters']}",
        )
        exp = {k_: v for k_, v in exp.items() if k_ not in ("vector_length", "nr_iters")}
    compare(r, key, case_j, names, vals, exp, f"{accname} linalg.generic lowering (n={n}, offsets {offs})")


def eval_gemmini(r, I, J, K, sa, sb, sc, oa, ob):
    """linalg.generic with library_call = gemmini (quantised matmul: a, b, zero points, c): the LOOP_WS configuration words carry the tile counts
    (dims / 16, packed K << 32 | J << 16 | I), operand addresses and row strides named in GemminiAccelerator._gemmini_loop_ws"""
    from machines.memview import View, handlers as mem_handlers

    acc = common.ctx().get_acc("gemmini")
    M, N, Kk = I * 16, J * 16, K * 16
    ta = f"memref<{M}x{Kk}xi8, strided<[{sa}, 1], offset: {oa}>>"
    tb = f"memref<{Kk}x{N}xi8, strided<[{sb}, 1], offset: {ob}>>"
    tc = f"memref<{M}x{N}xi32, strided<[{sc}, 1]>>"
    text = (
        "builtin.module {\n  " + common.to_text(acc.generate_acc_op()) + f"\nfunc.func @f(%a : {ta}, %b : {tb}, %c : {tc}) {{\n  %z = arith.constant 0 : i32\n"
        '  linalg.generic {indexing_maps = [affine_map<(d0, d1, d2) -> (d0, d2)>, affine_map<(d0, d1, d2) -> (d2, d1)>, affine_map<(d0, d1, d2) -> ()>, affine_map<(d0, d1, d2) -> ()>, '
        'affine_map<(d0, d1, d2) -> (d0, d1)>], iterator_types = ["parallel", "parallel", "reduction"], library_call = "gemmini"} '
        f"ins(%a, %b, %z, %z : {ta}, {tb}, i32, i32) outs(%c : {tc}) {{\n  ^bb0(%x : i8, %y : i8, %p : i32, %q : i32, %o : i32):\n"
        "    %e = arith.extsi %x : i8 to i32\n    %f = arith.extsi %y : i8 to i32\n    %m = arith.muli %e, %f : i32\n    %s = arith.addi %o, %m : i32\n    linalg.yield %s : i32\n  }\n  func.return\n}\n}\n"
    )
    key = f"gemmini|{(I, J, K, sa, sb, sc, oa, ob)}"
    case_j = dict(kind="gemmini", args=[I, J, K, sa, sb, sc, oa, ob])
    r.obs = ("gemmini", I, J, K, sa, sb, sc, oa, ob)
    r.states = 1
    r.sample = dict(kind="gemmini", program=text)
    try:
        mod = common.compile_text(text, "convert-linalg-to-accfg")
    except common.Rejected as e:
        r.rejected = e.kind
        r.count("gemmini_rejected:" + str(e)[:70])
        return
    setup = next((op for op in mod.walk() if op.name == "accfg.setup"), None)
    if setup is None:
        r.rejected = "no-setup"
        return
    names = [p.data for p in setup.param_names]
    h = dict(mem_handlers())
    h.update({"accfg.setup": lambda it, op: [("state",)], "accfg.launch": lambda it, op: [("tok",)], "accfg.await": lambda it, op: []})
    it = Interp(handlers=h, budget=20000)
    bases = [0x10000, 0x20000, 0x30000]
    views = [View(("a", 0), 1, oa, [M, Kk], [sa, 1], bases[0]), View(("b", 0), 1, ob, [Kk, N], [sb, 1], bases[1]), View(("c", 0), 4, 0, [M, N], [sc, 1], bases[2])]
    try:
        it.run_func(find_func(mod, "f"), views)
    except (UseBeforeDef, InterpError) as e:
        r.violate(key + "|exec", case_j, f"generated setup code cannot be evaluated: {e}")
        return
    vals = [it.get(v) for v in setup.values]
    r.validated = 1
    r.transitions += it.steps
    pre = "k_LOOP_WS_CONFIG_"
    exp = {
        pre + "BOUNDS.rs1": 0, pre + "BOUNDS.rs2": (K << 32) | (J << 16) | I,
        pre + "ADDRS_AB.rs1": bases[0] + oa, pre + "ADDRS_AB.rs2": bases[1] + ob, pre + "ADDRS_DC.rs1": 0, pre + "ADDRS_DC.rs2": bases[2],
        pre + "STRIDES_AB.rs1": sa, pre + "STRIDES_AB.rs2": sb, pre + "STRIDES_DC.rs1": sc, pre + "STRIDES_DC.rs2": sc,
    }
    got = dict(zip(names, vals))
    for k_, want in exp.items():
        if k_ not in got:
            r.violate(key + "|missing", case_j, f"gemmini: no value for declared field {k_}")
            return
        if got[k_] != want:
            r.violate(key + "|value", case_j, f"gemmini matmul {M}x{Kk} @ {Kk}x{N} (strides {sa}, {sb}, {sc}; offsets {oa}, {ob}): field {k_} receives {got[k_]:#x} but means {want:#x}")
            return


# ------------------------------------------------------------------------------------------------ xdma


XDMA_KERNELS = {
    # kernel text, input element type, output element type, index in XDMA_EXT_SET of the extension that handles it, its parameter values
    "add": ("%k = kernel.add %e0, %e0 : i32, i32 -> i32", "i32", "i32", 5, [2]),
    "rdown": (
        "%k = kernel.rescale %e0 {input_zp = 3 : i32, output_zp = 5 : i32, multiplier = array<i32: 7>, shift = array<i32: 9>, max_int = 127 : i32, min_int = -128 : i32, double_round = false} : (i32) -> i8",
        "i32", "i8", 3, [3, 7, 5, 9],
    ),
    "rup": (
        "%k = kernel.rescale %e0 {input_zp = 3 : i32, output_zp = 5 : i32, multiplier = array<i32: 7>, shift = array<i32: 9>, max_int = 127 : i32, min_int = -128 : i32, double_round = false} : (i8) -> i32",
        "i8", "i32", 4, [3, 7, 5, 9],
    ),
}


def eval_xdma(r, chan, byte, ex, L, kern=None, order=0):
    from snaxc.accelerators import snax_xdma as X
    from snaxc.accelerators.streamers import extensions as E
    from snaxc.accelerators.streamers import streamers as S

    exts = [E.XDMA_EXT_SET[i]() for i in ex]
    masks = [S.HasChannelMask()] if chan else []
    ropts = (masks + list(exts)) if order else (list(exts) + masks)
    wopts = ([S.HasChannelMask()] if chan else []) + ([S.HasByteMask()] if byte else [])
    t = ["n"] * 5
    cfg = S.StreamerConfiguration([S.Streamer(S.StreamerType.Reader, t, [8], ropts), S.Streamer(S.StreamerType.Writer, t, [8], wopts)], S.StreamerSystemType.DmaExt)
    acc = X.SNAXXDMAAccelerator(cfg)
    decl = common.to_text(acc.generate_acc_op())
    sts = list(cfg.streamers)
    pats = [marker_pattern(sts[0], L, 0), marker_pattern(sts[1], L, 14)]
    body = (
        "  ^bb0(%s0 : !dart.stream<i8>, %s1 : !dart.stream<i8>):\n"
        '    %g = "dart.generic"(%s0) <{library_call = "snax_xdma"}> ({\n    ^bb1(%e0 : i8, %e1 : i8):\n      dart.yield %e0 : i8\n'
        "    }) : (!dart.stream<i8>) -> !dart.stream<i8>\n    dart.yield %g : !dart.stream<i8>\n"
    )
    if kern is not None:
        ktext, tin, tout, _, _ = XDMA_KERNELS[kern]
        body = (
            f"  ^bb0(%s0 : !dart.stream<{tin}>, %s1 : !dart.stream<{tout}>):\n"
            f'    %g = "dart.generic"(%s0) <{{library_call = "snax_xdma"}}> ({{\n    ^bb1(%e0 : {tin}, %e1 : {tout}):\n      {ktext}\n      dart.yield %k : {tout}\n'
            f"    }}) : (!dart.stream<{tin}>) -> !dart.stream<{tout}>\n    dart.yield %g : !dart.stream<{tout}>\n"
        )
    text = region_text("snax_xdma", decl, 2, None, pats, 1, 1, body)
    key = f"xdma|{chan}|{byte}|{ex}|{L}" + (f"|{kern}|{order}" if kern is not None else "")
    case_j = dict(kind="xdma", chan=chan, byte=byte, ex=ex, L=L, kern=kern, order=order)
    res = run_convert(acc, text, key, case_j, r)
    r.obs = ("xdma", chan, byte, ex, L, kern, order)
    r.states = 1
    r.nontrivial = True
    r.sample = dict(kind="xdma", channel_mask=chan, byte_mask=byte, extensions=[type(e).__name__ for e in exts])
    if res is None:
        return
    names, vals, args = res
    r.validated = 1
    exp = {}
    for name, st, (ub, ts, ss), ptr in zip(["a", "b"], sts, pats, args[:2]):
        exp[f"{name}_ptr_low"] = ptr
        exp[f"{name}_ptr_high"] = 0
        exp[f"{name}_sstride_0"] = ss[0]
        for i in range(5):
            exp[f"{name}_bound_{i}"] = ub[i] if i < len(ub) else 1
            exp[f"{name}_tstride_{i}"] = ts[i] if i < len(ts) else 0
        exp[f"{name}_enabled_chan"] = -1
        if any(type(o).__name__ == "HasByteMask" for o in st.opts):
            exp[f"{name}_enabled_byte"] = -1
        # bit k of <s>_bypass belongs to the k-th extension of the streamer (the order in which their parameter fields are declared); it is set
        # for the extension that handles the kernel, whose parameter registers get the kernel's values; all other extension parameters are 0
        stexts = [o for o in st.opts if isinstance(o, E.StreamerExtension)]
        handler = XDMA_KERNELS[kern][3] if kern is not None else None
        bypass = 0
        for k, e in enumerate(stexts):
            handles = handler is not None and type(e) is E.XDMA_EXT_SET[handler]
            if handles:
                bypass |= 1 << k
            for j in range(e.csr_length):
                exp[f"{name}_{e.name}_{j}"] = XDMA_KERNELS[kern][4][j] if handles else 0
        exp[f"{name}_bypass"] = bypass
    compare(r, key, case_j, names, vals, exp, f"snax_xdma chan={chan} byte={byte} ext={ex} kernel={kern} masks_first={order}")


# ------------------------------------------------------------------------------------------------ phs


def eval_phs(r, hist, k, L):
    from checks import C20
    from snaxc.accelerators.snax_phs import SNAXPHSAccelerator
    from snaxc.phs.combine import append_to_abstract_graph
    from snaxc.phs.decode import decode_abstract_graph

    A = C20.alphabet("quick", 2)
    ks = [A[i] for i in hist]
    try:
        pe = C20.to_pe(ks[0], 2, "phs_acc")
        for kk in ks[1:]:
            append_to_abstract_graph(C20.to_pe(kk, 2, "phs_acc"), pe)
    except Exception as e:
        r.rejected = "merge:" + type(e).__name__
        return
    acc = SNAXPHSAccelerator(pe, C20._template_spec(2))
    decl = common.to_text(acc.generate_acc_op())
    sts = list(acc.streamer_config.data.streamers)
    pats = [marker_pattern(st, min(L, len(st.temporal_dims)), 10 * i) for i, st in enumerate(sts)]
    kern = ks[k]
    names = {("a", 0): "%e0", ("a", 1): "%e1"}
    lines = []
    for j, (o, p, q) in enumerate(kern):
        names[("r", j)] = f"%r{j}"
        lines.append(f"      %r{j} = arith.{o} {names[p]}, {names[q]} : i32")
    body = (
        "  ^bb0(%s0 : !dart.stream<i32>, %s1 : !dart.stream<i32>, %s2 : !dart.stream<i32>):\n"
        '    %g = "dart.generic"(%s0, %s1) <{library_call = "phs_acc"}> ({\n    ^bb1(%e0 : i32, %e1 : i32, %e2 : i32):\n' + "\n".join(lines) + f"\n      dart.yield %r{len(kern) - 1} : i32\n"
        "    }) : (!dart.stream<i32>, !dart.stream<i32>) -> !dart.stream<i32>\n    dart.yield %g : !dart.stream<i32>\n"
    )
    text = region_text("phs_acc", decl, 3, None, pats, 2, 1, body)
    key = f"phs|{hist}|{k}|{L}"
    case_j = dict(kind="phs", hist=hist, k=k, L=L)
    res = run_convert(acc, text, key, case_j, r)
    r.obs = ("phs", hist, k, L)
    r.states = 1
    r.nontrivial = pe.get_true_switches() > 0
    r.sample = dict(kind="phs", history=[repr(x) for x in ks], kernel=repr(kern), true_switches=pe.get_true_switches())
    if res is None:
        return
    nms, vals, args = res
    r.validated = 1
    exp = expected_streamer_fields(["a", "b", "c"], sts, pats, args[:3], [False] * 3)
    want = list(decode_abstract_graph(pe, C20.to_pe(kern, 2, "phs_acc")))
    for i, v in enumerate(want):
        exp[f"phs_switch_{i}"] = v
    steps = 1
    for b in pats[0][0]:
        steps *= b
    exp["loop_bound_alu"] = steps
    compare(r, key, case_j, nms, vals, exp, f"snax_phs history {hist} kernel #{k}")


def evaluate(case) -> CaseResult:
    r = CaseResult()
    kind = case[0]
    if kind == "alu":
        eval_alu(r, *case[1:])
    elif kind == "gemmx":
        eval_gemmx(r, *case[1:])
    elif kind == "xdma":
        eval_xdma(r, *case[1:])
    elif kind == "legacy":
        eval_legacy(r, *case[1:])
    elif kind == "gemmini":
        eval_gemmini(r, *case[1:])
    else:
        eval_phs(r, *case[1:])
    r.count("cases_" + kind)
    return r


def _t(x):
    return tuple(_t(i) for i in x) if isinstance(x, list) else x


def replay(case):
    k = case["kind"]
    if k == "alu":
        c = ("alu", _t(case["cfg"]), case["L"], case["zero"])
    elif k == "gemmx":
        c = ("gemmx", _t(case["geom"]), case["kern"], case["var"])
    elif k == "xdma":
        c = ("xdma", case["chan"], case["byte"], _t(case["ex"]), case["L"]) + ((case["kern"], case["order"]) if case.get("kern") else ())
    elif k == "gemmini":
        c = ("gemmini",) + tuple(case["args"])
    elif k == "legacy":
        c = ("legacy", case["acc"], case["n"], case["dyn"], _t(case["offs"]))
    else:
        c = ("phs", _t(case["hist"]), case["k"], case["L"])
    return evaluate(c).violations
