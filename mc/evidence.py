"""Evidence writer: /verif/evidence/<id>.json, validated structurally before exit."""
from __future__ import annotations

import json
import os
import subprocess
import time

VERIF = os.path.dirname(os.path.dirname(os.path.abspath(__file__)))
SCHEMA = "/root/.vp/EVIDENCE.schema.json"


def _jsonable(x):
    if isinstance(x, dict):
        return {str(k): _jsonable(v) for k, v in x.items()}
    if isinstance(x, (list, tuple, set, frozenset)):
        return [_jsonable(v) for v in x]
    if isinstance(x, (str, int, float, bool)) or x is None:
        return x
    return repr(x)


def write(pid, tier, seed, coverage, assumptions, wall_s, violations, level="model_checking"):
    for k in ("states", "transitions", "traces_validated_against_impl", "samples", "evaluations", "distinct_nontrivial", "rule", "exhaustive"):
        assert k in coverage, f"evidence for {pid} lacks {k}"
    assert isinstance(coverage["samples"], list) and coverage["samples"], "samples must be a non-empty list"
    doc = dict(
        property_id=pid,
        tier=tier,
        seed=int(seed),
        level=level,
        coverage=_jsonable(coverage),
        assumptions=list(assumptions),
        wall_s=round(float(wall_s), 2),
        violations=int(violations),
    )
    # runs against a scratch copy of the repository (mutant testing) must not overwrite the real evidence
    edir = os.path.join(VERIF, "evidence")
    if os.environ.get("VERIF_REPO", "/repo") != "/repo":
        edir = os.environ.get("VERIF_EVIDENCE_DIR", "/tmp/verif_alt_evidence")
    os.makedirs(edir, exist_ok=True)
    path = os.path.join(edir, f"{pid}.json")
    tmp = path + ".tmp"
    with open(tmp, "w") as f:
        json.dump(doc, f, indent=1, sort_keys=False)
        f.write("\n")
    os.replace(tmp, path)
    validate(path)
    return path


def validate(path):
    """Validate with jsonschema from the tooling venv if present (best effort, never fatal offline)."""
    if not os.path.exists(SCHEMA):
        return
    code = (
        "import json,sys,jsonschema;"
        "jsonschema.validate(json.load(open(sys.argv[1])), json.load(open(sys.argv[2])))"
    )
    try:
        r = subprocess.run(["python3-vt", "-c", code, path, SCHEMA], capture_output=True, text=True, timeout=60)
    except (FileNotFoundError, subprocess.TimeoutExpired):
        return
    if r.returncode != 0 and "jsonschema" in r.stderr and "ModuleNotFoundError" in r.stderr:
        return
    if r.returncode != 0:
        raise RuntimeError(f"evidence file {path} does not validate:\n{r.stderr[-2000:]}")
