"""Common check driver: enumerate an index-addressable space in 16 forked shards, run the property oracle on
every case, merge counters / distinct observations / violations, write evidence, print verdict lines.

A check module defines:
    PID, TITLE
    ASSUMPTIONS: list[str]
    RULE: str                            how cases are enumerated and what counts as distinct/non-trivial
    def space(tier) -> Sequence | Iterable      all cases, simplest first (deterministic)
    def evaluate(case) -> CaseResult
    def replay(case_json) -> list[(key, case, what)]   re-run one recorded case (no explorer)
"""
from __future__ import annotations

import hashlib
import json
import os
import signal
import sys
import time

from . import evidence, findings
from .parallel import NPROC, run_sharded


class CaseResult:
    __slots__ = ("obs", "nontrivial", "violations", "counters", "sample", "rejected", "states", "transitions", "validated")

    def __init__(self):
        self.obs = None  # hashable observation (distinctness)
        self.nontrivial = True
        self.violations = []  # list of (key, case_json, what)
        self.counters = {}
        self.sample = None
        self.rejected = None  # rejection kind or None
        self.states = 0
        self.transitions = 0
        self.validated = 0

    def count(self, k, n=1):
        self.counters[k] = self.counters.get(k, 0) + n

    def violate(self, key, case, what):
        self.violations.append((key, case, what))


class CaseTimeout(BaseException):
    pass


def _alarm(signum, frame):
    raise CaseTimeout()


def _eval_with_timeout(mod, case, seconds):
    """A case that does not finish within `seconds` (compiler or machine looping) is counted as a rejection
    'timeout' and listed in the evidence; it is never silently dropped and never a violation by itself
    unless the check module turns it into one (mod.on_timeout)."""
    signal.signal(signal.SIGALRM, _alarm)
    signal.alarm(int(seconds))
    try:
        return mod.evaluate(case)
    except CaseTimeout:
        r = CaseResult()
        r.rejected = "timeout"
        r.counters["timeout"] = 1
        if hasattr(mod, "on_timeout"):
            mod.on_timeout(r, case)
        return r
    finally:
        signal.alarm(0)


def _h(x):
    return hashlib.blake2b(repr(x).encode(), digest_size=8).digest()


def run_check(mod, tier: str, seed: int, cap_s: float | None = None):
    t0 = time.time()
    pid = mod.PID
    cases = mod.space(tier)
    if not hasattr(cases, "__len__"):
        cases = list(cases)
    n = len(cases)
    cap = cap_s if cap_s is not None else float(os.environ.get("VERIF_CAP_S", "0") or 0) or None
    sample_idx = set(_sample_indices(n))
    known_keys = set(findings.load_known(pid))
    case_timeout = getattr(mod, "CASE_TIMEOUT", 60)

    def work(shard, nshards):
        obs, viol, counters, samples, rej = set(), {}, {}, [], {}
        states = transitions = validated = evaluated = nontriv = 0
        capped_at = None
        # VERIF_SEED rotates only the visiting order of a shard (matters only if a cap is hit)
        idxs = list(range(shard, n, nshards))
        if seed and idxs:
            r = (seed * 7919) % len(idxs)
            idxs = idxs[r:] + idxs[:r]
        for i in idxs:
            if cap and time.time() - t0 > cap:
                capped_at = i
                break
            r = _eval_with_timeout(mod, cases[i], case_timeout)
            evaluated += 1
            states += r.states
            transitions += r.transitions
            validated += r.validated
            for k, v in r.counters.items():
                counters[k] = counters.get(k, 0) + v
            if r.rejected:
                rej[r.rejected] = rej.get(r.rejected, 0) + 1
            elif r.nontrivial and r.obs is not None:
                h = _h(r.obs)
                if h not in obs:
                    obs.add(h)
                nontriv += 1
            for v in r.violations:
                counters["violating_cases_raw"] = counters.get("violating_cases_raw", 0) + 1
                cls = "viol[" + (v[0].rsplit("|", 1)[1] if "|" in v[0] else v[0].split(":", 1)[0])[:50] + "]"
                counters[cls] = counters.get(cls, 0) + 1
                # keep the simplest few of each class per shard (plus every one that a known finding may list)
                if v[0] in known_keys:
                    viol.setdefault("@known", []).append(v)
                    continue
                lst = viol.setdefault(cls, [])
                lst.append(v)
                if len(lst) > 40:
                    lst.sort(key=lambda v: (len(v[0]), v[0]))
                    del lst[20:]
            if i in sample_idx and r.sample is not None:
                samples.append((i, r.sample))
        return dict(obs=obs, viol=viol, counters=counters, samples=samples, rej=rej, states=states,
                    transitions=transitions, validated=validated, evaluated=evaluated, nontriv=nontriv, capped_at=capped_at)

    results = run_sharded(work, NPROC)
    obs = set()
    counters, rej = {}, {}
    viol_by_cls, samples = {}, []
    states = transitions = validated = evaluated = 0
    capped = []
    for r in results:
        obs |= r["obs"]
        for k, v in r["counters"].items():
            counters[k] = counters.get(k, 0) + v
        for k, v in r["rej"].items():
            rej[k] = rej.get(k, 0) + v
        for c, lst in r["viol"].items():
            viol_by_cls.setdefault(c, []).extend(lst)
        samples += r["samples"]
        states += r["states"]
        transitions += r["transitions"]
        validated += r["validated"]
        evaluated += r["evaluated"]
        if r["capped_at"] is not None:
            capped.append(r["capped_at"])
    samples.sort(key=lambda s: s[0])
    rep = findings.Reporter(pid)
    rep.clean_old_replays()
    # confirm each violation by replaying it once, outside the explorer, before reporting it
    infra_errors = 0
    viol = []
    per_cls = max(3, rep.MAX_REPLAYS // max(1, len(viol_by_cls)))
    for c in sorted(viol_by_cls):
        lst = sorted(viol_by_cls[c], key=lambda v: (len(v[0]), v[0]))
        known = [v for v in lst if v[0] in rep.known]
        fresh = [v for v in lst if v[0] not in rep.known]
        viol += known + fresh[:per_cls]
        rep.suppressed_count = getattr(rep, "suppressed_count", 0) + max(0, len(fresh) - per_cls)
    for key, case, what in viol:
        if hasattr(mod, "replay") and key not in rep.known:
            again = mod.replay(json.loads(json.dumps(case, default=repr)))
            if not any(k == key for k, _, _ in again):
                infra_errors += 1
                print(f"INFRA-ERROR: {pid} violation did not reproduce on replay: {key[:200]}", file=sys.stderr)
                continue
        rep.violation(key, case, what)
    wall = time.time() - t0
    extra = mod.extra_coverage() if hasattr(mod, "extra_coverage") else {}
    cov = dict(
        states=max(states, 1),
        transitions=max(transitions, 1),
        traces_validated_against_impl=validated,
        evaluations=evaluated,
        distinct_nontrivial=len(obs),
        rule=mod.RULE,
        exhaustive=not capped,
        space_size=n,
        rejected_by_compiler=rej,
        counters=counters,
        samples=[dict(index=i, case=s) for i, s in samples[:6]] or [dict(note="no sample captured")],
        bounds=getattr(mod, "BOUNDS", {}).get(tier, {}),
        known_findings_hit=sorted(rep.known_hit),
        **extra,
    )
    if capped:
        cov["cap"] = dict(seconds=cap, first_unvisited_indices=sorted(capped)[:16])
    evidence.write(pid, tier, seed, cov, mod.ASSUMPTIONS, wall, rep.total_new)
    code = rep.finish()
    print(f"{pid} tier={tier} cases={evaluated}/{n} states={states} transitions={transitions} "
          f"distinct_obs={len(obs)} rejected={sum(rej.values())} violations={rep.total_new} "
          f"known={len(rep.known_hit)} exhaustive={not capped} wall={wall:.1f}s")
    for k in sorted(counters):
        print(f"   {k}={counters[k]}")
    if infra_errors:
        return 2
    return code


def _sample_indices(n):
    if n <= 6:
        return list(range(n))
    return sorted({0, n // 7, n // 3, n // 2, (2 * n) // 3, n - 1})
