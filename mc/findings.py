"""Known findings (genuine, recorded defects) and violation reporting.

known_findings.json is committed and never written at run time. An entry:
  {"property": "C13", "key": "<stable case key>", "what": "<what fails>"}          -> suppresses exactly that case
  {"fixed": "property=C17 <commit> <what failed>"}                                  -> suppresses nothing
A violation is matched by its *case key* (canonical input text + run-time input vector), so a different
violation of the same property is still reported.
"""
from __future__ import annotations

import hashlib
import json
import os

VERIF = os.path.dirname(os.path.dirname(os.path.abspath(__file__)))
KF_PATH = os.path.join(VERIF, "known_findings.json")


def fingerprint(obj) -> str:
    return hashlib.sha256(json.dumps(obj, sort_keys=True, default=repr).encode()).hexdigest()[:16]


def load_known(pid):
    if not os.path.exists(KF_PATH):
        return {}
    data = json.load(open(KF_PATH))
    return {e["key"]: e for e in data.get("findings", []) if e.get("property") == pid}


class Reporter:
    """Collects violations of one check run; decides exit code; writes replay files."""

    MAX_REPLAYS = 30

    def __init__(self, pid):
        self.pid = pid
        self.known = load_known(pid)
        self.known_hit = {}
        self.new = []
        self.total_new = 0

    def replay_dir(self):
        d = os.path.join(VERIF, "replays", self.pid)
        if os.environ.get("VERIF_REPO", "/repo") != "/repo":
            d = os.path.join(os.environ.get("VERIF_EVIDENCE_DIR", "/tmp/verif_alt_evidence"), "replays", self.pid)
        return d

    def clean_old_replays(self):
        """replay files describe the current run only"""
        d = self.replay_dir()
        if os.path.isdir(d):
            for f in os.listdir(d):
                if f.endswith(".json"):
                    os.remove(os.path.join(d, f))

    def violation(self, key: str, case: dict, what: str):
        """key: stable identity of the failing case. case: JSON-able replay payload."""
        if key in self.known:
            self.known_hit.setdefault(key, 0)
            self.known_hit[key] += 1
            return False
        self.total_new += 1
        if len(self.new) < 3 * self.MAX_REPLAYS:
            self.new.append((key, case, what))
        return True

    def finish(self):
        """print KNOWN-FINDING / VIOLATION lines; returns exit code."""
        for key, e in self.known.items():
            if key in self.known_hit:
                print(f"KNOWN-FINDING: property={self.pid} {e['what']}")
            else:
                print(f"NOTE: listed finding for {self.pid} no longer reproduces: {e['what']}")
        if not self.new:
            return 0
        d = os.path.join(VERIF, "replays", self.pid)
        if os.environ.get("VERIF_REPO", "/repo") != "/repo":
            d = os.path.join(os.environ.get("VERIF_EVIDENCE_DIR", "/tmp/verif_alt_evidence"), "replays", self.pid)
        os.makedirs(d, exist_ok=True)
        seen = set()
        for key, case, what in self.new:
            fp = fingerprint(key)
            if fp in seen:
                continue
            seen.add(fp)
            path = os.path.join(d, fp + ".json")
            with open(path, "w") as f:
                json.dump(dict(property=self.pid, key=key, what=what, case=case), f, indent=1, default=repr)
            print(f"VIOLATION property={self.pid} replay={path}")
            print(f"  what: {what[:600]}")
        if self.total_new > len(self.new):
            print(f"  (+{self.total_new - len(self.new)} further violating cases not written)")
        return 1
