"""Shared glue: the repo's own context/pass registry, parse/print/pipeline helpers."""
from __future__ import annotations

import io
import os
import sys

sys.path.insert(0, os.path.dirname(os.path.dirname(os.path.abspath(__file__))))
import compat  # noqa: F401,E402  (must precede snaxc)

from xdsl.parser import Parser  # noqa: E402
from xdsl.passes import PassPipeline  # noqa: E402
from xdsl.printer import Printer  # noqa: E402

_MAIN = None


def main():
    global _MAIN
    if _MAIN is None:
        from snaxc.tools.snax_opt_main import SNAXOptMain

        _MAIN = SNAXOptMain(args=["--allow-unregistered-dialect"])
    return _MAIN


def ctx():
    return main().ctx


def parse(text: str):
    return Parser(ctx(), text).parse_module()


def to_text(op) -> str:
    out = io.StringIO()
    Printer(out).print_op(op)
    return out.getvalue()


def passes(spec: str):
    M = main()
    return PassPipeline.parse_spec(M.available_passes, spec).passes


def run_pipeline(mod, spec: str, verify: bool = True):
    c = ctx()
    for p in passes(spec):
        p.apply(c, mod)
        if verify:
            mod.verify()
    return mod


class Rejected(Exception):
    """Compiler refused the input (exception / verify failure): a rejection, never a violation."""

    def __init__(self, stage, exc):
        super().__init__(f"{stage}: {type(exc).__name__}: {str(exc)[:200]}")
        self.stage = stage
        self.kind = type(exc).__name__


def compile_text(text: str, spec: str):
    """parse + pipeline; any exception becomes Rejected."""
    try:
        mod = parse(text)
        mod.verify()
    except Exception as e:  # generator bug rather than compiler: surface loudly
        raise RuntimeError(f"generated program does not parse/verify: {e}\n{text}") from e
    try:
        run_pipeline(mod, spec)
    except RecursionError as e:
        raise Rejected("pipeline", e)
    except Exception as e:
        raise Rejected("pipeline", e)
    return mod


_XDMA_REGISTERED = []


def ensure_xdma():
    """snax_xdma is only registered through a system configuration file (yaml, not available here): register it with its default streamer configuration"""
    if not _XDMA_REGISTERED:
        from snaxc.accelerators.snax_xdma import SNAXXDMAAccelerator

        try:
            ctx().register_accelerator("snax_xdma", lambda: SNAXXDMAAccelerator())
        except Exception:
            pass
        _XDMA_REGISTERED.append(1)
