"""Fork pool over deterministic shards; results merged in shard order."""
from __future__ import annotations

import multiprocessing as mp
import os
import sys
import time
import traceback

NPROC = int(os.environ.get("VERIF_JOBS", "0")) or min(16, os.cpu_count() or 1)


def _worker(fn, shard, nshards, q):
    try:
        q.put((shard, "ok", fn(shard, nshards)))
    except BaseException:
        q.put((shard, "err", traceback.format_exc()))


def run_sharded(fn, nshards=None):
    """fn(shard, nshards) -> picklable result. Returns list of results in shard order.
    Must be called after all heavy imports (workers are forked)."""
    nshards = nshards or NPROC
    if nshards == 1 or os.environ.get("VERIF_SERIAL"):
        return [fn(s, nshards) for s in range(nshards)]
    mpctx = mp.get_context("fork")
    q = mpctx.Queue()
    procs = [mpctx.Process(target=_worker, args=(fn, s, nshards, q), daemon=True) for s in range(nshards)]
    for p in procs:
        p.start()
    out = {}
    while len(out) < nshards:
        try:
            shard, st, res = q.get(timeout=5)
        except Exception:
            dead = [i for i, p in enumerate(procs) if not p.is_alive() and p.exitcode not in (0, None) and i not in out]
            if dead:
                raise RuntimeError(f"worker(s) {dead} died (exit codes {[procs[i].exitcode for i in dead]})")
            continue
        if st == "err":
            for p in procs:
                p.terminate()
            raise RuntimeError(f"worker {shard} failed:\n{res}")
        out[shard] = res
    for p in procs:
        p.join()
    return [out[s] for s in range(nshards)]


class Deadline:
    """Time cap for thorough runs; a hit is reported (exhaustive=false), never hidden."""

    def __init__(self, seconds):
        self.t0 = time.time()
        self.seconds = seconds
        self.hit = False

    def expired(self):
        if self.seconds and time.time() - self.t0 > self.seconds:
            self.hit = True
        return self.hit
