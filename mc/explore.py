"""Generic explicit-state exploration utilities written for this task (no Python explorer is installed).

explore()            BFS over a transition system whose step function calls real code / an abstract machine.
enumerate_choices()  deviation-bounded enumeration of environment answers: run(prefix) replays the prefix of
                     choices, then takes choice 0; returns the list of (n_alternatives) met. All alternatives
                     within `bound` deviations from the default are explored. A prefix that does not replay
                     (choice point arity differs) is a hard error.
interleavings()      all interleavings of per-thread atomic step lists between barriers (used by cores.py).
"""
from __future__ import annotations

import collections
from typing import Any, Callable, Hashable, Iterable


class Stats:
    def __init__(self):
        self.states = 0
        self.transitions = 0
        self.max_depth = 0
        self.executions = 0

    def merge(self, o):
        self.states += o.states
        self.transitions += o.transitions
        self.max_depth = max(self.max_depth, o.max_depth)
        self.executions += o.executions

    def as_dict(self):
        return dict(states=self.states, transitions=self.transitions, max_depth=self.max_depth, executions=self.executions)


def explore(
    init: Any,
    enabled: Callable[[Any], Iterable[Any]],
    step: Callable[[Any, Any], Any],
    canon: Callable[[Any], Hashable],
    invariant: Callable[[Any], str | None],
    max_depth: int | None = None,
    stats: Stats | None = None,
):
    """BFS. Returns (violation | None) where violation = (path_of_events, message)."""
    stats = stats if stats is not None else Stats()
    seen = {canon(init)}
    stats.states += 1
    msg = invariant(init)
    if msg:
        return ([], msg)
    frontier = collections.deque([(init, [])])
    while frontier:
        st, path = frontier.popleft()
        if max_depth is not None and len(path) >= max_depth:
            continue
        for ev in enabled(st):
            nxt = step(st, ev)
            stats.transitions += 1
            p2 = path + [ev]
            stats.max_depth = max(stats.max_depth, len(p2))
            msg = invariant(nxt)
            if msg:
                return (p2, msg)
            k = canon(nxt)
            if k not in seen:
                seen.add(k)
                stats.states += 1
                frontier.append((nxt, p2))
    return None


class ChoiceDivergence(Exception):
    pass


class Chooser:
    """Environment-answer source handed to a run. `choose(n)` returns an int in range(n)."""

    def __init__(self, prefix):
        self.prefix = list(prefix)
        self.points = []  # arity at each choice point
        self.taken = []

    def choose(self, n: int) -> int:
        i = len(self.points)
        self.points.append(n)
        if i < len(self.prefix):
            c = self.prefix[i]
            if c >= n:
                raise ChoiceDivergence(f"choice {i}: recorded {c} but only {n} alternatives")
        else:
            c = 0
        self.taken.append(c)
        return c


def enumerate_choices(run: Callable[[Chooser], Any], bound: int | None, stats: Stats | None = None):
    """Yield (choices, result) for every execution reachable with <= bound non-default choices
    (bound None = all). `run` must be deterministic given the choices."""
    stats = stats if stats is not None else Stats()
    stack = [([], 0)]
    while stack:
        prefix, dev = stack.pop()
        ch = Chooser(prefix)
        res = run(ch)
        stats.executions += 1
        stats.transitions += len(ch.points)
        yield (list(ch.taken), res)
        for i in range(len(prefix), len(ch.points)):
            if bound is not None and dev + 1 > bound:
                break
            for alt in range(1, ch.points[i]):
                stack.append((ch.taken[:i] + [alt], dev + 1))
