"""Index-addressable finite spaces: len(space), space[i]. Deterministic, lazily evaluated, shardable."""
from __future__ import annotations

import bisect
from typing import Callable, Sequence


class Product:
    """Cartesian product of sequences, last factor fastest. Items are tuples."""

    def __init__(self, *factors: Sequence):
        self.factors = [f if hasattr(f, "__getitem__") else list(f) for f in factors]
        self.n = 1
        for f in self.factors:
            self.n *= len(f)

    def __len__(self):
        return self.n

    def __getitem__(self, i):
        if i < 0 or i >= self.n:
            raise IndexError(i)
        out = []
        for f in reversed(self.factors):
            i, r = divmod(i, len(f))
            out.append(f[r])
        return tuple(reversed(out))


class Concat:
    def __init__(self, *parts: Sequence):
        self.parts = [p for p in parts]
        self.offsets = []
        t = 0
        for p in self.parts:
            self.offsets.append(t)
            t += len(p)
        self.n = t

    def __len__(self):
        return self.n

    def __getitem__(self, i):
        if i < 0 or i >= self.n:
            raise IndexError(i)
        k = bisect.bisect_right(self.offsets, i) - 1
        return self.parts[k][i - self.offsets[k]]


class Mapped:
    def __init__(self, base: Sequence, fn: Callable):
        self.base, self.fn = base, fn

    def __len__(self):
        return len(self.base)

    def __getitem__(self, i):
        return self.fn(self.base[i])


class Tagged(Mapped):
    def __init__(self, tag, base):
        super().__init__(base, lambda x: (tag, x))


class Strided:
    def __init__(self, base, step, start=0):
        self.base, self.step, self.start = base, step, start
        self.n = max(0, (len(base) - start + step - 1) // step)

    def __len__(self):
        return self.n

    def __getitem__(self, i):
        if i < 0 or i >= self.n:
            raise IndexError(i)
        return self.base[self.start + i * self.step]


def power(seq: Sequence, k: int):
    return Product(*([seq] * k))
