#!/usr/bin/env python3
"""prints the measured-coverage table of DESIGN.md section 9 from /verif/evidence/*.json (written by the checks' own runs)"""
import glob
import json

print("| id | tier | cases (space) | exhaustive | states | transitions | traces validated | distinct non-trivial | rejected by compiler | known | wall |")
print("|---|---|---|---|---|---|---|---|---|---|---|")
for f in sorted(glob.glob("/verif/evidence/C*.json")):
    e = json.load(open(f))
    c = e["coverage"]
    rej = sum(c.get("rejected_by_compiler", {}).values()) if isinstance(c.get("rejected_by_compiler"), dict) else c.get("rejected_by_compiler", 0)
    known = len(c.get("known_findings_hit", []))
    print(
        f"| {e['property_id']} | {e['tier']} | {c.get('evaluations', 0):,} ({c.get('space_size', 0):,}) | {c.get('exhaustive')} | {c.get('states', 0):,} | {c.get('transitions', 0):,} | "
        f"{c.get('traces_validated_against_impl', 0):,} | {c.get('distinct_nontrivial', 0):,} | {rej:,} | {known} | {e.get('wall_s', 0):.0f} s |"
    )
