"""Environment compatibility for running snax-mlir (pinned to an older xDSL) on the installed xDSL 0.70.

Importing this package (before any `snaxc` import):
  * wraps xdsl.irdl.operations.OpDef.from_pyrdl so list-valued `irdl_options` become tuples;
  * puts /verif/compat/stubs on sys.path so `import minimalloc` resolves to the all-answers stub.
  * puts the repository (VERIF_REPO, default /repo) on sys.path: snaxc is not installed in /venv, so the
    checks always import the current working tree (and VERIF_REPO=<scratch worktree> runs them on a mutant).
/repo is never edited for this.
"""
import os
import sys

import xdsl.irdl.operations as _ops

if not getattr(_ops.OpDef.from_pyrdl, "_verif_shim", False):
    _orig = _ops.OpDef.from_pyrdl

    def _from_pyrdl(pyrdl_def):
        for c in pyrdl_def.mro():
            v = c.__dict__.get("irdl_options")
            if isinstance(v, list):
                setattr(c, "irdl_options", tuple(v))
        return _orig(pyrdl_def)

    _from_pyrdl._verif_shim = True
    _ops.OpDef.from_pyrdl = staticmethod(_from_pyrdl)

REPO = os.environ.get("VERIF_REPO", "/repo")
if REPO not in sys.path:
    sys.path.insert(0, REPO)

_stubs = os.path.join(os.path.dirname(os.path.abspath(__file__)), "stubs")
if _stubs not in sys.path:
    sys.path.insert(0, _stubs)
