"""Stub of the `minimalloc` package API used by snaxc.transforms.snax_allocate.

The solver is *environment nondeterminism* owned by the harness: `Problem.solve()` asks the installed
ORACLE (a callable set by the check) for the answer, so a check can enumerate every placement that is
valid for the declared lifetimes/sizes/alignments. Default oracle: first-fit.
"""


class Buffer:
    def __init__(self, id, start_time, end_time, size, alignment=1):
        self.id = id
        self.start_time = start_time
        self.end_time = end_time
        self.size = size
        self.alignment = alignment

    def __repr__(self):
        return f"Buffer({self.id!r},[{self.start_time},{self.end_time}),size={self.size},al={self.alignment})"


def first_fit(problem):
    placed, out = [], []
    for b in problem.buffers:
        off = 0
        al = max(int(b.alignment), 1)
        while True:
            if off % al:
                off += al - off % al
            clash = [
                (p, po)
                for p, po in placed
                if not (p.end_time <= b.start_time or b.end_time <= p.start_time)
                and not (po + p.size <= off or off + b.size <= po)
            ]
            if not clash:
                break
            off = max(po + p.size for p, po in clash)
        placed.append((b, off))
        out.append(off)
    return out


ORACLE = [first_fit]
PROBLEMS = []


class Problem:
    def __init__(self, buffers, capacity):
        self.buffers = list(buffers)
        self.capacity = capacity

    def solve(self):
        PROBLEMS.append(self)
        return ORACLE[0](self)
