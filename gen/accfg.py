"""Program space G_acc: all accfg programs up to a size / nesting bound (DESIGN.md 4.1).

AST (nested tuples, hashable, JSON-able):
  ("L", acc, (atom, ...))      full-field setup + launch + await; atoms name values (see ATOMS)
  ("CALL",) ("LLVMCALL",) ("CALLN",)
  ("FOR", body)                scf.for over run-time bounds (function arguments)
  ("IF", then, else_)          scf.if on a function-argument condition; else_ = None -> no else region
  ("IFP", then, else_)         scf.if on parity of the innermost induction variable (only inside a loop)
  ("WHILE", body)              scf.while executing its body region once (an "other op with regions")
Atoms: "x","y" function arguments; "i" = cast of innermost induction variable; "ix" = i + x (pure chain);
       "o" = cast of the *outer* induction variable (nesting >= 2).
"""
from __future__ import annotations

import itertools
from functools import lru_cache

ACCS = {
    "acc1": dict(fields=("A", "B"), launch=()),
    "acc2": dict(fields=("A",), launch=()),
}


def l_variants(acc, depth, rich):
    """value tuples for a full-field setup at loop depth `depth`"""
    nf = len(ACCS[acc]["fields"])
    if nf > 2:
        # many-field accelerators: a few value patterns that overlap pairwise on different field subsets
        def pat(atoms, shift=0):
            return tuple(atoms[(j + shift) % len(atoms)] for j in range(nf))

        out = [pat(["x"]), pat(["x", "y"]), pat(["y", "x", "x"])]
        if depth >= 1:
            out += [pat(["i", "y", "x"]), pat(["x", "y", "i"], 1)]
        if depth >= 1 and rich:
            out += [pat(["ix", "x"])]
        return out
    if nf == 1:
        out = [("x",), ("y",)]
        if depth >= 1:
            out += [("i",)]
        if depth >= 1 and rich:
            out += [("ix",)]
        return out
    out = [("x", "y"), ("x", "x"), ("y", "y"), ("y", "x")]
    if depth >= 1:
        out += [("i", "y"), ("x", "i")]
        if rich:
            # ("i", "ix"): one field is the producer of the other field's value (shared input op at uneven depth)
            out += [("ix", "y"), ("i", "i"), ("y", "ix"), ("i", "ix"), ("ix", "i"), ("il", "y"), ("x", "il"), ("ik", "y")]
    if depth >= 2 and rich:
        out += [("o", "i"), ("o", "y")]
    return out


class Grammar:
    def __init__(self, accs=("acc1",), calls=("CALL",), ifs=True, ifp=False, whiles=False, rich=False, max_depth=2, else_branch=True, cfor=()):
        self.accs, self.calls, self.ifs, self.ifp, self.whiles, self.rich = accs, calls, ifs, ifp, whiles, rich
        self.cfor = tuple(cfor)  # constant (lb, ub, step) triples for loops with compile-time bounds
        self.max_depth, self.else_branch = max_depth, else_branch
        self._memo = {}

    def leaves(self, loop_depth):
        out = []
        for acc in self.accs:
            for v in l_variants(acc, loop_depth, self.rich):
                out.append(("L", acc, v))
        for c in self.calls:
            out.append((c,))
        return out

    def stmts(self, size, nest, loop_depth):
        """all single statements with exactly `size` nodes, nesting budget `nest`"""
        key = ("s", size, nest, loop_depth)
        if key in self._memo:
            return self._memo[key]
        out = []
        if size == 1:
            out += self.leaves(loop_depth)
        if size >= 2 and nest >= 1:
            for body in self.seqs(size - 1, nest - 1, loop_depth + 1, nonempty=True):
                out.append(("FOR", body))
                for t in self.cfor:
                    out.append(("CFOR", body, t))
            if self.whiles:
                for body in self.seqs(size - 1, nest - 1, loop_depth, nonempty=True):
                    out.append(("WHILE", body))
            if self.ifs:
                kinds = ["IF"] + (["IFP"] if (self.ifp and loop_depth >= 1) else [])
                for then in self.seqs(size - 1, nest - 1, loop_depth, nonempty=True):
                    for k in kinds:
                        out.append((k, then, None))
                if self.else_branch:
                    # empty then-branch, everything in the else branch (the passes treat the two regions asymmetrically)
                    for els in self.seqs(size - 1, nest - 1, loop_depth, nonempty=True):
                        for k in kinds:
                            out.append((k, (), els))
                    for nthen in range(1, size - 1):
                        nelse = size - 1 - nthen
                        for then in self.seqs(nthen, nest - 1, loop_depth, nonempty=True):
                            for els in self.seqs(nelse, nest - 1, loop_depth, nonempty=True):
                                for k in kinds:
                                    out.append((k, then, els))
        self._memo[key] = out
        return out

    def seqs(self, size, nest, loop_depth, nonempty=False):
        """all statement sequences with exactly `size` nodes in total"""
        key = ("q", size, nest, loop_depth)
        if key not in self._memo:
            out = []
            if size == 0:
                out.append(())
            for first in range(1, size + 1):
                for s in self.stmts(first, nest, loop_depth):
                    for rest in self.seqs(size - first, nest, loop_depth):
                        out.append((s,) + rest)
            self._memo[key] = out
        res = self._memo[key]
        if nonempty:
            return [r for r in res if r]
        return res

    def programs(self, max_size):
        out = []
        for n in range(1, max_size + 1):
            out += self.seqs(n, self.max_depth, 0)
        return out


class SlimGrammar(Grammar):
    """few leaves (three constant value patterns, one induction-variable pattern inside loops, an effecting call), nesting depth 1:
    affordable one node deeper than the full grammar"""

    def leaves(self, loop_depth):
        acc = self.accs[0]
        out = [("L", acc, v) for v in (("x", "y"), ("y", "x"), ("y", "y"))]
        if loop_depth >= 1:
            out.append(("L", acc, ("i", "y")))
        out.append(("CALL",))
        return out


class SlimmerGrammar(Grammar):
    """two constant value patterns, one induction-variable pattern, an effecting call; used for nesting depth 2"""

    def leaves(self, loop_depth):
        acc = self.accs[0]
        out = [("L", acc, ("x", "y")), ("L", acc, ("y", "x"))]
        if loop_depth >= 1:
            out.append(("L", acc, ("i", "y")))
        out.append(("CALL",))
        return out


def nesting(prog):
    m = 0
    for s in prog:
        if s[0] in ("FOR", "CFOR", "WHILE", "FORI"):
            m = max(m, 1 + nesting(s[1]))
        elif s[0] in ("IF", "IFP", "IFR"):
            m = max(m, 1 + max(nesting(s[1]), nesting(s[2]) if s[2] else 0))
    return m


class TwoAccSlimGrammar(Grammar):
    def leaves(self, loop_depth):
        return [("L", "acc1", ("x", "y")), ("L", "acc1", ("y", "x")), ("L", "acc2", ("x",)), ("CALL",)]


def accs_of(prog):
    s = set()
    for st in prog:
        if st[0] == "L":
            s.add(st[1])
        elif st[0] in ("FOR", "CFOR", "WHILE", "FORI"):
            s |= accs_of(st[1])
        elif st[0] in ("IF", "IFP", "IFR"):
            s |= accs_of(st[1]) | (accs_of(st[2]) if st[2] else set())
    return s


_SLIM2 = {}


def slim_two_acc_programs(nodes):
    """two accelerators, an effecting call and control flow at nesting depth 1, one node deeper than the full two-accelerator grammar reaches:
    the state of one accelerator across a region that configures the other one"""
    if nodes not in _SLIM2:
        g = TwoAccSlimGrammar(accs=("acc1", "acc2"), calls=("CALL",), ifp=False, max_depth=1)
        _SLIM2[nodes] = [p for p in g.seqs(nodes, 1, 0) if has_launch(p) and accs_of(p) == {"acc1", "acc2"} and count_nodes(p, "CALL") >= 1]
    return _SLIM2[nodes]


_SLIM = {}


def slim_programs(nodes, acc="acc1"):
    if (nodes, acc) not in _SLIM:
        g = SlimGrammar(accs=(acc,), calls=("CALL",), ifp=False, max_depth=1)
        flat = [p for p in g.seqs(nodes, 1, 0) if has_launch(p)]
        # the same size at nesting depth exactly 2 (call / setup two regions deep: for{if{..}}, if{for{..}}, else branches), fewer leaves
        g2 = SlimmerGrammar(accs=(acc,), calls=("CALL",), ifp=False, whiles=True, max_depth=2)
        deep = [p for p in g2.seqs(nodes, 2, 0) if has_launch(p) and nesting(p) == 2]
        _SLIM[(nodes, acc)] = flat + deep
    return _SLIM[(nodes, acc)]


def count_nodes(prog, kind):
    n = 0
    for s in prog:
        if s[0] == kind:
            n += 1
        if s[0] in ("FOR", "WHILE", "CFOR", "FORI"):
            n += count_nodes(s[1], kind)
        elif s[0] in ("IF", "IFP", "IFR"):
            n += count_nodes(s[1], kind) + (count_nodes(s[2], kind) if s[2] else 0)
    return n


def has_launch(prog):
    return count_nodes(prog, "L") > 0


def from_json(x):
    """JSON round trip turns tuples into lists; restore."""
    if isinstance(x, list):
        return tuple(from_json(i) for i in x)
    return x


# ------------------------------------------------------------------------------------------ text emission


class Emitter:
    def __init__(self, accs=None, field_type="i32", decls=""):
        self.accs = accs if accs is not None else ACCS
        self.ft = field_type
        self.decls = decls  # accfg.accelerator declarations (text) to put into the module
        self.n = 0
        self.lines = []
        self.nfor = 0
        self.nif = 0
        self.launch_id = 0
        self.carried = []  # stack of {p, q}: loop-carried (non-state) values of enclosing FORI loops
        self.results = []  # results of the most recent FORI / IFR statement: {rp, rq}
        self.index_atoms = set()

    def fresh(self, p="v"):
        self.n += 1
        return f"%{p}{self.n}"

    def emit(self, prog):
        body = []
        self._seq(prog, body, "  ", [])
        body = [f"  %{a} = arith.index_cast %{a[1]} : {self.ft} to index" for a in sorted(self.index_atoms)] + body
        args = [f"%x : {self.ft}", f"%y : {self.ft}"]
        args += [f"%c{k} : i1" for k in range(self.nif)]
        for k in range(self.nfor):
            args += [f"%lb{k} : index", f"%ub{k} : index", f"%st{k} : index"]
        text = "func.func @f(" + ", ".join(args) + ") {\n" + "\n".join(body) + "\n  func.return\n}\n"
        text += "func.func private @opaque() -> ()\n"
        text += "func.func private @annotated() -> ()\n"
        text += "llvm.func @llvm_opaque()\n"
        return "builtin.module {\n" + self.decls + text + "}\n"

    def _atom(self, a, ivs):
        if a in ("x", "y"):
            return f"%{a}"
        if a in ("nx", "ny"):
            # index-typed copies of the arguments (a setup may mix i32 and index values; the lowering casts the latter)
            self.index_atoms.add(a)
            return f"%{a}"
        if a in ("p", "q"):
            return self.carried[-1][a]
        if a in ("rp", "rq"):
            return self.results[-1][a]
        if a == "i":
            return ivs[-1]["i"]
        if a == "ix":
            return ivs[-1]["ix"]
        if a == "il":
            return ivs[-1]["il"]
        if a == "ik":
            return ivs[-1]["ik"]
        if a == "o":
            return ivs[-2]["i"]
        raise ValueError(a)

    def _seq(self, prog, out, ind, ivs):
        for s in prog:
            k = s[0]
            if k == "L":
                _, acc, vals = s
                fields = self.accs[acc]["fields"]
                st, tok = self.fresh("s"), self.fresh("t")
                params = ", ".join(f'"{f}" = {self._atom(v, ivs)} : {"index" if v in ("nx", "ny") else self.ft}' for f, v in zip(fields, vals))
                out.append(f'{ind}{st} = accfg.setup "{acc}" to ({params}) : !accfg.state<"{acc}">')
                self.launch_id += 1
                lnames, lvals, ltys = [], [], []
                # launch fields are named: every second launch lists them in reverse order (values travel with their names)
                lspec = list(self.accs[acc].get("launch", ()))
                if self.launch_id % 2 == 0:
                    lspec.reverse()
                for lname, lit, lty in lspec:
                    lv = self.fresh("lv")
                    out.append(f"{ind}{lv} = arith.constant {lit} : {lty}")
                    lnames.append(f'"{lname}"')
                    lvals.append(lv)
                    ltys.append(lty)
                out.append(
                    f'{ind}{tok} = "accfg.launch"({", ".join(lvals + [st])}) <{{param_names = [{", ".join(lnames)}], accelerator = "{acc}"}}> {{verif.id = {self.launch_id} : i32}} : ({", ".join(ltys + [f"!accfg.state<{chr(34)}{acc}{chr(34)}>"])}) -> !accfg.token<"{acc}">'
                )
                out.append(f'{ind}"accfg.await"({tok}) : (!accfg.token<"{acc}">) -> ()')
            elif k == "CALL":
                out.append(f"{ind}func.call @opaque() : () -> ()")
            elif k == "CALLN":
                out.append(f"{ind}func.call @annotated() {{accfg.effects = #accfg.effects<none>}} : () -> ()")
            elif k == "LLVMCALL":
                out.append(f'{ind}"llvm.call"() <{{callee = @llvm_opaque, fastmathFlags = #llvm.fastmath<none>, CConv = #llvm.cconv<ccc>, op_bundle_sizes = array<i32>, operandSegmentSizes = array<i32: 0, 0>, TailCallKind = #llvm.tailcallkind<none>}}> : () -> ()')
            elif k in ("FOR", "CFOR"):
                ic, ix = self.fresh("ic"), self.fresh("ix")
                if k == "FOR":
                    j = self.nfor
                    self.nfor += 1
                    iv = f"%iv{j}"
                    out.append(f"{ind}scf.for {iv} = %lb{j} to %ub{j} step %st{j} {{")
                else:
                    iv = self.fresh("civ")
                    names = [self.fresh("clb"), self.fresh("cub"), self.fresh("cst")]
                    for nm, val in zip(names, s[2]):
                        out.append(f"{ind}{nm} = arith.constant {val} : index")
                    out.append(f"{ind}scf.for {iv} = {names[0]} to {names[1]} step {names[2]} {{")
                out.append(f"{ind}  {ic} = arith.index_cast {iv} : index to {self.ft}")
                out.append(f"{ind}  {ix} = arith.addi {ic}, %x : {self.ft}")
                il = None
                if "'il'" in repr(s[1]):
                    # i - lb: the loop's own lower bound used as an ordinary outer value in the input chain of a setup
                    lbname = f"%lb{j}" if k == "FOR" else names[0]
                    ild, il = self.fresh("ild"), self.fresh("il")
                    out.append(f"{ind}  {ild} = arith.subi {iv}, {lbname} : index")
                    out.append(f"{ind}  {il} = arith.index_cast {ild} : index to {self.ft}")
                ik = None
                if "'ik'" in repr(s[1]):
                    # i * k with the constant k defined inside the loop body (a tile size next to its use)
                    kc, ik = self.fresh("kc"), self.fresh("ik")
                    out.append(f"{ind}  {kc} = arith.constant 3 : {self.ft}")
                    out.append(f"{ind}  {ik} = arith.muli {ic}, {kc} : {self.ft}")
                self._seq(s[1], out, ind + "  ", ivs + [dict(i=ic, ix=ix, iv=iv, il=il, ik=ik)])
                out.append(f"{ind}}}")
            elif k in ("IF", "IFP"):
                if k == "IF":
                    c = f"%c{self.nif}"
                    self.nif += 1
                else:
                    one, par, c = self.fresh("one"), self.fresh("par"), self.fresh("pc")
                    out.append(f"{ind}{one} = arith.constant 1 : {self.ft}")
                    out.append(f"{ind}{par} = arith.andi {ivs[-1]['i']}, {one} : {self.ft}")
                    out.append(f"{ind}{c} = arith.cmpi eq, {par}, {one} : {self.ft}")
                out.append(f"{ind}scf.if {c} {{")
                self._seq(s[1], out, ind + "  ", ivs)
                if s[2] is not None:
                    out.append(f"{ind}}} else {{")
                    self._seq(s[2], out, ind + "  ", ivs)
                out.append(f"{ind}}}")
            elif k == "FORI":
                # loop with two loop-carried values besides whatever state the passes thread through it
                j = self.nfor
                self.nfor += 1
                iv = f"%iv{j}"
                ic, ix = self.fresh("ic"), self.fresh("ix")
                pn, qn = self.fresh("p"), self.fresh("q")
                res = self.fresh("fr")
                out.append(f"{ind}{res}:2 = scf.for {iv} = %lb{j} to %ub{j} step %st{j} iter_args({pn}c = %x, {qn}c = %y) -> ({self.ft}, {self.ft}) {{")
                out.append(f"{ind}  {ic} = arith.index_cast {iv} : index to {self.ft}")
                out.append(f"{ind}  {ix} = arith.addi {ic}, %x : {self.ft}")
                self.carried.append(dict(p=f"{pn}c", q=f"{qn}c"))
                self._seq(s[1], out, ind + "  ", ivs + [dict(i=ic, ix=ix, iv=iv)])
                self.carried.pop()
                out.append(f"{ind}  {pn}n = arith.addi {pn}c, %x : {self.ft}")
                out.append(f"{ind}  {qn}n = arith.addi {qn}c, {qn}c : {self.ft}")
                out.append(f"{ind}  scf.yield {pn}n, {qn}n : {self.ft}, {self.ft}")
                out.append(f"{ind}}}")
                self.results.append(dict(rp=f"{res}#0", rq=f"{res}#1"))
            elif k == "IFR":
                # scf.if with two results besides the state
                c = f"%c{self.nif}"
                self.nif += 1
                res = self.fresh("ir")
                out.append(f"{ind}{res}:2 = scf.if {c} -> ({self.ft}, {self.ft}) {{")
                self._seq(s[1], out, ind + "  ", ivs)
                out.append(f"{ind}  scf.yield %x, %y : {self.ft}, {self.ft}")
                out.append(f"{ind}}} else {{")
                self._seq(s[2], out, ind + "  ", ivs)
                out.append(f"{ind}  scf.yield %y, %x : {self.ft}, {self.ft}")
                out.append(f"{ind}}}")
                self.results.append(dict(rp=f"{res}#0", rq=f"{res}#1"))
            elif k == "WHILE":
                t, f_ = self.fresh("true"), self.fresh("false")
                w = self.fresh("w")
                out.append(f"{ind}{t} = arith.constant true")
                out.append(f"{ind}{f_} = arith.constant false")
                # executes the 'before' region twice and the body (after region) once
                out.append(f"{ind}{w} = scf.while ({w}a = {t}) : (i1) -> i1 {{")
                out.append(f"{ind}  scf.condition({w}a) {w}a : i1")
                out.append(f"{ind}}} do {{")
                out.append(f"{ind}^bb0({w}b : i1):")
                self._seq(s[1], out, ind + "  ", ivs)
                out.append(f"{ind}  scf.yield {f_} : i1")
                out.append(f"{ind}}}")
            else:
                raise ValueError(k)


def emit(prog, **kw):
    e = Emitter(**kw)
    text = e.emit(prog)
    return text, e.nfor, e.nif


# run-time input menus
LOOP_TRIPLES = [(0, 0, 1), (0, 1, 1), (1, 4, 1), (2, 6, 2), (0, 3, 1)]  # trips 0,1,3,2,3
LOOP_TRIPLES_SMALL = [(0, 0, 1), (0, 1, 1), (2, 6, 2), (1, 4, 1)]  # trips 0,1,2,3


def input_vectors(nfor, nif, triples=LOOP_TRIPLES):
    for loops in itertools.product(triples, repeat=nfor):
        for conds in itertools.product([1, 0], repeat=nif):
            yield loops, conds


def args_for(loops, conds, x=1000, y=2000):
    a = [x, y] + list(conds)
    for t in loops:
        a += list(t)
    return a


def skeletons(acc):
    """hand-listed programs with control flow that carries *other* values besides the accelerator state (two loop-carried
    values / two if results of the field type, used by a setup afterwards)"""
    nf = len(ACCS[acc]["fields"])

    def pat(*atoms):
        return tuple(atoms[j % len(atoms)] for j in range(nf))

    L = lambda *a: ("L", acc, pat(*a))  # noqa: E731
    return [
        (("FORI", (L("p", "q"),)), L("rp", "rq")),
        (L("x", "y"), ("FORI", (L("q", "p"), L("p", "q"))), L("rq", "rp")),
        (("FORI", (L("i", "p", "q"),)), L("rp", "x", "rq")),
        (("IFR", (L("x", "y"),), (L("y", "x"),)), L("rp", "rq")),
        (L("x", "x"), ("IFR", (L("x", "y"),), (L("x", "y"),)), L("rq", "rp")),
        (("FORI", (("IFR", (L("p", "q"),), (L("q", "p"),)), L("rp", "rq"))), L("rp", "rq")),
    ]
