"""Generic bounded grammar of structured programs: sequences of leaves nested in FOR / IF / IFE (if with else).

AST: leaf = any hashable tuple whose first element is not a control keyword;
     ("FOR", body) | ("IF", then) | ("IFE", then, else)
"""
from __future__ import annotations

CONTROLS = ("FOR", "IF", "IFE")


class Grammar:
    def __init__(self, leaves, controls=("FOR", "IF"), max_depth=2, leaves_at_depth=None):
        self.leaves = list(leaves)
        self.controls = controls
        self.max_depth = max_depth
        self.leaves_at_depth = leaves_at_depth  # optional fn(depth) -> leaves
        self._memo = {}

    def _leaves(self, depth):
        return self.leaves_at_depth(depth) if self.leaves_at_depth else self.leaves

    def stmts(self, size, nest, depth):
        key = ("s", size, nest, depth)
        if key in self._memo:
            return self._memo[key]
        out = []
        if size == 1:
            out += list(self._leaves(depth))
        if size >= 2 and nest >= 1:
            for body in self.seqs(size - 1, nest - 1, depth + 1):
                if not body:
                    continue
                if "FOR" in self.controls:
                    out.append(("FOR", body))
                if "IF" in self.controls:
                    out.append(("IF", body))
            if "IFE" in self.controls:
                for nthen in range(1, size - 1):
                    for then in self.seqs(nthen, nest - 1, depth + 1):
                        for els in self.seqs(size - 1 - nthen, nest - 1, depth + 1):
                            if then and els:
                                out.append(("IFE", then, els))
        self._memo[key] = out
        return out

    def seqs(self, size, nest, depth):
        key = ("q", size, nest, depth)
        if key not in self._memo:
            out = []
            if size == 0:
                out.append(())
            for first in range(1, size + 1):
                for s in self.stmts(first, nest, depth):
                    for rest in self.seqs(size - first, nest, depth):
                        out.append((s,) + rest)
            self._memo[key] = out
        return self._memo[key]

    def programs(self, max_size, min_size=1):
        out = []
        for n in range(min_size, max_size + 1):
            out += self.seqs(n, self.max_depth, 0)
        return out


def walk(prog):
    for s in prog:
        yield s
        if s[0] == "FOR" or s[0] == "IF":
            yield from walk(s[1])
        elif s[0] == "IFE":
            yield from walk(s[1])
            yield from walk(s[2])


def count(prog, pred):
    return sum(1 for s in walk(prog) if pred(s))


def nfor(prog):
    return count(prog, lambda s: s[0] == "FOR")


def nif(prog):
    return count(prog, lambda s: s[0] in ("IF", "IFE"))


def from_json(x):
    if isinstance(x, list):
        return tuple(from_json(i) for i in x)
    return x


class Emitter:
    """emits func @f(<bufs>, %c0..: i1, %n0..: index) with loops `for 0..%nK step 1` and ifs on %cK.
    leaf_emit(leaf, tag, ind, ivs) -> list of lines"""

    def __init__(self, leaf_emit, buf_args):
        self.leaf_emit = leaf_emit
        self.buf_args = buf_args
        self.nfor = 0
        self.nif = 0
        self.tag = 0

    def emit(self, prog, extra_decls="", split_at=None):
        """split_at = k: the top-level statements from index k on live in a second block reached by cf.br"""
        lines = []
        if split_at is None:
            self._seq(prog, lines, "  ", [])
        else:
            self._seq(prog[:split_at], lines, "  ", [])
            lines.append("  cf.br ^bb1")
            lines.append("^bb1:")
            self._seq(prog[split_at:], lines, "  ", [])
        args = list(self.buf_args) + [f"%c{k} : i1" for k in range(self.nif)] + [f"%n{k} : index" for k in range(self.nfor)]
        text = "builtin.module {\n" + extra_decls + "func.func @f(" + ", ".join(args) + ") {\n  %zero = arith.constant 0 : index\n  %one = arith.constant 1 : index\n" + "\n".join(lines) + "\n  func.return\n}\n}\n"
        return text

    def _seq(self, prog, out, ind, ivs):
        for s in prog:
            if s[0] == "FOR":
                k = self.nfor
                self.nfor += 1
                out.append(f"{ind}scf.for %i{k} = %zero to %n{k} step %one {{")
                self._seq(s[1], out, ind + "  ", ivs + [f"%i{k}"])
                out.append(f"{ind}}}")
            elif s[0] in ("IF", "IFE"):
                k = self.nif
                self.nif += 1
                out.append(f"{ind}scf.if %c{k} {{")
                self._seq(s[1], out, ind + "  ", ivs)
                if s[0] == "IFE":
                    out.append(f"{ind}}} else {{")
                    self._seq(s[2], out, ind + "  ", ivs)
                out.append(f"{ind}}}")
            else:
                self.tag += 1
                out += [ind + l for l in self.leaf_emit(s, self.tag, ivs)]
