"""Evaluator for phs.pe graphs under a switch assignment (trusted base; dialects/phs.py, phs/decode.py):
   phs.choose = case by switch value (0 = default region, i = i-th case region),  phs.mux = rhs if switch == 1 else lhs,
   phs.yield = result. Switch values are given for the switches that are 'true switches' (in get_switches() order); a switch
   driving a choose op with a single option is fixed to 0 (decode emits no value for it)."""
from __future__ import annotations

from .ir import Interp, InterpError


def assign_switches(pe, values):
    """map switch block args -> value. Returns (mapping, n_consumed)"""
    from snaxc.dialects import phs

    vals = list(values)
    out = {}
    k = 0
    for sw in pe.get_switches():
        user = sw.get_user_of_unique_use()
        if isinstance(user, phs.ChooseOp) and len(list(user.operations())) == 1:
            out[sw] = 0
            continue
        if k >= len(vals):
            raise InterpError(f"decode produced {len(vals)} switch values but the PE needs more")
        out[sw] = vals[k]
        k += 1
    return out, k


def evaluate(pe, data, values):
    from snaxc.dialects import phs

    sw, used = assign_switches(pe, values)
    if used != len(values):
        raise InterpError(f"decode produced {len(values)} switch values but the PE consumes {used}")
    env = {}
    dops = pe.data_operands()
    if len(dops) != len(data):
        raise InterpError("data operand count")
    for a, v in zip(dops, data):
        env[a] = v
    env.update(sw)
    for op in pe.body.block.ops:
        if isinstance(op, phs.ChooseOp):
            s = env[op.switch]
            regions = list(op.regions)
            if not (0 <= s < len(regions)):
                raise InterpError(f"switch value {s} selects no region of {op.name_prop.data}")
            blk = regions[s].block
            it = Interp(budget=100)
            res = it.run_block(blk, [env[o] for o in op.data_operands])
            for r, v in zip(op.results, res[2]):
                env[r] = v
        elif isinstance(op, phs.MuxOp):
            env[op.results[0]] = env[op.rhs] if env[op.switch] == 1 else env[op.lhs]
        elif isinstance(op, phs.YieldOp):
            return [env[o] for o in op.operands]
        else:
            raise InterpError(f"unexpected op {op.name} in PE")
    raise InterpError("PE without yield")
