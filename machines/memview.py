"""memref values for the IR machine (trusted base: MLIR memref semantics).

A View is (buffer id, element byte width, offset, sizes, strides) in elements — enough for subview / dim / alloc /
extract_strided_metadata / extract_aligned_pointer_as_index / casts-as-alias. Buffers get distinct base addresses."""
from __future__ import annotations

import itertools

from xdsl.dialects.builtin import DYNAMIC_INDEX, MemRefType, NoneAttr, StridedLayoutAttr

from .ir import InterpError

_ids = itertools.count(1)


class View:
    __slots__ = ("buf", "elw", "offset", "sizes", "strides", "base")

    def __init__(self, buf, elw, offset, sizes, strides, base):
        self.buf, self.elw, self.offset, self.sizes, self.strides, self.base = buf, elw, offset, list(sizes), list(strides), base

    @staticmethod
    def fresh(name, sizes, elw, base=None, strides=None, offset=0):
        if strides is None:
            strides, acc = [], 1
            for s in reversed(sizes):
                strides.insert(0, acc)
                acc *= s
        n = next(_ids)
        return View((name, n), elw, offset, sizes, strides, base if base is not None else 0x10000 * n)

    def __repr__(self):
        return f"View({self.buf}, off={self.offset}, sizes={self.sizes}, strides={self.strides})"


def elw_of(ty):
    et = ty.element_type
    try:
        return et.size
    except Exception:
        return max(1, getattr(et, "bitwidth", 32) // 8)  # index elements: 4 bytes (RV32)


def _mixed(static, dynamic, it):
    dyn = iter(dynamic)
    out = []
    for s in static:
        out.append(it.get(next(dyn)) if s == DYNAMIC_INDEX else s)
    return out


def h_alloc(it, op):
    ty = op.results[0].type
    dyn = iter(op.operands)
    sizes = []
    for s in ty.get_shape():
        sizes.append(it.get(next(dyn)) if s == -1 or s == DYNAMIC_INDEX else s)
    v = View.fresh("alloc", sizes, elw_of(ty))
    it.trace.append(("alloc", tuple(sizes)))
    return [v]


def h_dim(it, op):
    v = it.get(op.operands[0])
    i = it.get(op.operands[1])
    return [v.sizes[i]]


def h_subview(it, op):
    v = it.get(op.operands[0])
    n = len(v.sizes)
    offs = _mixed(op.static_offsets.get_values(), op.offsets, it)
    sizes = _mixed(op.static_sizes.get_values(), op.sizes, it)
    strides = _mixed(op.static_strides.get_values(), op.strides, it)
    off = v.offset + sum(o * s for o, s in zip(offs, v.strides))
    new_strides = [a * b for a, b in zip(strides, v.strides)]
    res_rank = len(op.results[0].type.get_shape())
    if res_rank != n:
        # rank-reducing: drop unit dims not present in the result type (leftmost-first matching)
        keep, want = [], list(op.results[0].type.get_shape())
        j = 0
        for k in range(n):
            if j < len(want) and (want[j] == sizes[k] or want[j] in (-1, DYNAMIC_INDEX)) and (len(want) - j) <= (n - k) and not (sizes[k] == 1 and (n - k) > (len(want) - j) and want[j] != 1):
                keep.append(k)
                j += 1
        sizes = [sizes[k] for k in keep]
        new_strides = [new_strides[k] for k in keep]
    return [View(v.buf, v.elw, off, sizes, new_strides, v.base)]


def h_alias(it, op):
    return [it.get(op.operands[0])]


def h_ptr(it, op):
    v = it.get(op.operands[0])
    return [v.base]


def h_metadata(it, op):
    v = it.get(op.operands[0])
    base = View(v.buf, v.elw, 0, [], [], v.base)
    return [base, v.offset, *v.sizes, *v.strides]


def h_dealloc(it, op):
    v = it.get(op.operands[0])
    it.trace.append(("dealloc", v.buf))
    return []


def h_affine_min(it, op):
    m = op.map.data
    vals = [it.get(o) for o in op.operands]
    res = m.eval(vals[: m.num_dims], vals[m.num_dims :])
    return [min(res)]


def h_affine_apply(it, op):
    m = op.map.data
    vals = [it.get(o) for o in op.operands]
    return [m.eval(vals[: m.num_dims], vals[m.num_dims :])[0]]


def handlers():
    return {
        "memref.alloc": h_alloc,
        "memref.alloca": h_alloc,
        "memref.dim": h_dim,
        "memref.subview": h_subview,
        "memref.cast": h_alias,
        "memref.memory_space_cast": h_alias,
        "memref.extract_aligned_pointer_as_index": h_ptr,
        "memref.extract_strided_metadata": h_metadata,
        "memref.dealloc": h_dealloc,
        "affine.min": h_affine_min,
        "affine.apply": h_affine_apply,
    }
