"""Independent (boring) evaluator of tiled-strided / strided layouts: the reference the repo's TSL views are
compared with. A layout spec is plain data: dims = [[(bound, step), ... outermost tile first], ...], offset.
addr(idx) = offset + sum_dim sum_depth step * digit, digits = mixed-radix expansion of idx[dim] over the
dimension's tile bounds (last tile fastest)."""
from __future__ import annotations

import itertools


def digits(i: int, bounds: list[int]) -> list[int]:
    out = []
    if not bounds:
        return out
    for b in reversed(bounds):
        out.append(i % b)
        i //= b
    # the outermost digit absorbs the rest (matches "outermost bound may be dynamic")
    out[-1] += i * bounds[0]
    return list(reversed(out))


def addr(dims, idx, offset=0) -> int:
    a = offset
    for d, i in zip(dims, idx):
        bs = [b for b, _ in d]
        for (b, s), dg in zip(d, digits(i, bs)):
            a += s * dg
    return a


def shape(dims):
    out = []
    for d in dims:
        p = 1
        for b, _ in d:
            p *= b
        out.append(p)
    return out


def box(shape_):
    return itertools.product(*[range(n) for n in shape_])


def all_addrs(dims, offset=0):
    return [addr(dims, idx, offset) for idx in box(shape(dims))]


def strided_addr(strides, idx, offset=0):
    return offset + sum(s * i for s, i in zip(strides, idx))
