"""Flat byte memory with the SNAX runtime's DMA semantics (trusted base; runtime/include/snax_rt.h).

snax_dma_1d_transfer(src, dst, size)                               copy `size` bytes
snax_dma_2d_transfer(src, dst, size, src_stride, dst_stride, rep)  `rep` rows of `size` bytes, row r at src + r*src_stride -> dst + r*dst_stride
Memory cells hold tokens; untouched cells read as POISON. Every byte read / written is logged.
"""
from __future__ import annotations

POISON = ("poison",)


class ByteMemory:
    def __init__(self):
        self.mem = {}
        self.reads = set()
        self.writes = set()
        self.transfers = 0

    def copy(self, src, dst, n):
        if n < 0 or n > 1 << 20:
            raise ValueError(f"unreasonable DMA size {n}")
        vals = [self.mem.get(src + k, POISON) for k in range(n)]
        for k in range(n):
            self.reads.add(src + k)
        for k, v in enumerate(vals):
            self.mem[dst + k] = v
            self.writes.add(dst + k)

    def dma_1d(self, src, dst, size):
        self.transfers += 1
        self.copy(src, dst, size)

    def dma_2d(self, src, dst, size, src_stride, dst_stride, repeat):
        self.transfers += 1
        if repeat < 0 or repeat > 1 << 16:
            raise ValueError(f"unreasonable DMA repeat {repeat}")
        for r in range(repeat):
            self.copy(src + r * src_stride, dst + r * dst_stride, size)

    def h_call(self, it, op):
        callee = op.callee.string_value()
        vals = [it.get(o) for o in op.operands]
        if callee == "snax_dma_1d_transfer":
            self.dma_1d(*vals)
            return []
        if callee == "snax_dma_2d_transfer":
            self.dma_2d(*vals)
            return []
        from .ir import InterpError

        raise InterpError("call to " + callee)
