"""SNAX streamer address generator (trusted base; snax_stream.py docstring + snax_cluster streamer doc).

A stride pattern (ub, ts innermost first; ss) issues, at temporal step t (mixed radix over ub, index 0 fastest), one access
per spatial port at base + sum_i t_i*ts_i + sum_j s_j*ss_j. Any ub == 0 disables the streamer (no steps)."""
from __future__ import annotations

import itertools


def temporal_addresses(ub, ts):
    """sequence of temporal offsets, index 0 of ub/ts is the innermost (fastest) loop"""
    if any(u == 0 for u in ub):
        return []
    out = []
    for t in itertools.product(*[range(u) for u in reversed(ub)]):
        t = t[::-1]
        out.append(sum(a * b for a, b in zip(t, ts)))
    return out


def spatial_offsets(ss, spatial_bounds):
    """all spatial offsets; spatial_bounds[j] ports along spatial dim j (index 0 fastest)"""
    out = []
    for s in itertools.product(*[range(b) for b in reversed(spatial_bounds)]):
        s = s[::-1]
        out.append(sum(a * b for a, b in zip(s, ss)))
    return out
