"""Small MLIR interpreter core over xDSL IR objects (trusted base: MLIR LangRef semantics of the ~40 ops
that appear in pass inputs/outputs). Dispatch is by op.name so unregistered ops can be given semantics by a
check. Detects use-before-def (xDSL's verify() does not check dominance) and enforces a step budget.

Values: python ints for index / iN (wrapped to N bits two's complement, signless stored as signed), floats
for fN, anything else is machine-specific (descriptors, tokens...).
"""
from __future__ import annotations

from typing import Any, Callable

from xdsl.dialects import builtin
from xdsl.dialects.builtin import IndexType, IntegerType
from xdsl.ir import Block, Operation, Region, SSAValue


class InterpError(Exception):
    """Harness limitation (unsupported op): must surface loudly, never as a violation."""


class UseBeforeDef(Exception):
    pass


class StepBudget(Exception):
    pass


class Poison:
    """Result of an operation whose operands were not available / undefined behaviour."""

    def __repr__(self):
        return "POISON"


INDEX_BITS = 64


def width_of(ty) -> int | None:
    if isinstance(ty, IndexType):
        return INDEX_BITS
    if isinstance(ty, IntegerType):
        return ty.width.data
    return None


def wrap(v: int, bits: int) -> int:
    m = 1 << bits
    v &= m - 1
    if v >= m >> 1 and bits > 1:
        v -= m
    if bits == 1:
        v = v & 1
    return v


def unsigned(v: int, bits: int) -> int:
    return v & ((1 << bits) - 1)


def const_value(attr):
    if isinstance(attr, builtin.IntegerAttr):
        w = width_of(attr.type)
        return wrap(attr.value.data, w) if w else attr.value.data
    if isinstance(attr, builtin.FloatAttr):
        return attr.value.data
    if isinstance(attr, builtin.BoolAttr):
        return int(bool(attr.value.data))
    raise InterpError(f"constant {attr}")


def _cmpi(pred: int, a: int, b: int, bits: int) -> int:
    ua, ub = unsigned(a, bits), unsigned(b, bits)
    return int([a == b, a != b, a < b, a <= b, a > b, a >= b, ua < ub, ua <= ub, ua > ub, ua >= ub][pred])


def _floordiv(a, b):
    return a // b


def _ceildiv(a, b):
    return -((-a) // b)


def _trunc_div(a, b):
    q = abs(a) // abs(b)
    return q if (a < 0) == (b < 0) else -q


BINOPS: dict[str, Callable[[int, int, int], int]] = {
    "arith.addi": lambda a, b, w: a + b,
    "arith.subi": lambda a, b, w: a - b,
    "arith.muli": lambda a, b, w: a * b,
    "arith.andi": lambda a, b, w: unsigned(a, w) & unsigned(b, w),
    "arith.ori": lambda a, b, w: unsigned(a, w) | unsigned(b, w),
    "arith.xori": lambda a, b, w: unsigned(a, w) ^ unsigned(b, w),
    "arith.divui": lambda a, b, w: unsigned(a, w) // unsigned(b, w),
    "arith.remui": lambda a, b, w: unsigned(a, w) % unsigned(b, w),
    "arith.divsi": lambda a, b, w: _trunc_div(a, b),
    "arith.remsi": lambda a, b, w: a - b * _trunc_div(a, b),
    "arith.floordivsi": lambda a, b, w: _floordiv(a, b),
    "arith.ceildivsi": lambda a, b, w: _ceildiv(a, b),
    "arith.ceildivui": lambda a, b, w: _ceildiv(unsigned(a, w), unsigned(b, w)),
    "arith.shli": lambda a, b, w: unsigned(a, w) << unsigned(b, w) if unsigned(b, w) < w else 0,
    "arith.shrui": lambda a, b, w: unsigned(a, w) >> unsigned(b, w) if unsigned(b, w) < w else 0,
    "arith.shrsi": lambda a, b, w: a >> min(unsigned(b, w), w - 1),
    "arith.minsi": lambda a, b, w: min(a, b),
    "arith.maxsi": lambda a, b, w: max(a, b),
    "arith.minui": lambda a, b, w: min(unsigned(a, w), unsigned(b, w)),
    "arith.maxui": lambda a, b, w: max(unsigned(a, w), unsigned(b, w)),
}
DIVS = {"arith.divui", "arith.remui", "arith.divsi", "arith.remsi", "arith.floordivsi", "arith.ceildivsi", "arith.ceildivui"}

FBINOPS = {
    "arith.addf": lambda a, b: a + b,
    "arith.subf": lambda a, b: a - b,
    "arith.mulf": lambda a, b: a * b,
    "arith.maximumf": lambda a, b: max(a, b),
    "arith.minimumf": lambda a, b: min(a, b),
}


class Interp:
    def __init__(self, handlers: dict[str, Callable] | None = None, budget: int = 200000, module=None):
        self.handlers = dict(handlers or {})
        self.budget = budget
        self.steps = 0
        self.module = module
        self.env: dict[SSAValue, Any] = {}
        self.trace: list = []  # events appended by handlers
        self.post_hook = None  # post_hook(interp, op) after every completed op
        self.block_hook = None  # block_hook(interp, block) after block arguments are bound

    # ---- environment
    def get(self, v: SSAValue):
        try:
            return self.env[v]
        except KeyError:
            raise UseBeforeDef(f"value {v} used before it is defined (owner: {getattr(v.owner, 'name', v.owner)})")

    def set_results(self, op: Operation, vals):
        if vals is None:
            vals = []
        if len(vals) != len(op.results):
            raise InterpError(f"{op.name}: handler returned {len(vals)} values for {len(op.results)} results")
        for r, v in zip(op.results, vals):
            self.env[r] = v

    # ---- execution
    def run_func(self, func_op, args):
        body: Region = func_op.body
        return self.run_region(body, list(args))

    def run_region(self, region: Region, args):
        """Execute a region (single- or multi-block via cf.br/cf.cond_br). Returns (terminator op, operand values)."""
        block = region.blocks.first
        while True:
            res = self.run_block(block, args)
            if res[0] == "branch":
                _, block, args = res
                continue
            return res[1], res[2]

    def run_block(self, block: Block, args):
        if len(args) != len(block.args):
            raise InterpError(f"block expects {len(block.args)} args, got {len(args)}")
        for a, v in zip(block.args, args):
            self.env[a] = v
        # values defined in this block must not be visible from an earlier execution before they are re-defined
        for op in block.ops:
            for r in op.results:
                self.env.pop(r, None)
        if self.block_hook:
            self.block_hook(self, block)
        for op in block.ops:
            out = self.exec_op(op)
            if out is not None:
                return out
            if self.post_hook:
                self.post_hook(self, op)
        raise InterpError("block without terminator")

    def exec_op(self, op: Operation):
        self.steps += 1
        if self.steps > self.budget:
            raise StepBudget(f"step budget {self.budget} exceeded")
        name = op.name
        if isinstance(op, builtin.UnregisteredOp):
            name = op.op_name.data
        h = self.handlers.get(name)
        if h is not None:
            r = h(self, op)
            if isinstance(r, tuple) and r and r[0] in ("branch", "term"):
                return r
            self.set_results(op, r)
            return None
        if name in ("scf.yield", "func.return", "dart.yield", "linalg.yield", "pipeline.yield", "accfg.yield", "phs.yield"):
            return ("term", op, [self.get(o) for o in op.operands])
        if name == "scf.condition":
            return ("term", op, [self.get(o) for o in op.operands])
        if name == "cf.br":
            return ("branch", op.successors[0], [self.get(o) for o in op.operands])
        if name == "cf.cond_br":
            c = self.get(op.operands[0])
            nthen = len(op.then_arguments)
            vals = [self.get(o) for o in op.operands[1:]]
            if c & 1:
                return ("branch", op.successors[0], vals[:nthen])
            return ("branch", op.successors[1], vals[nthen:])
        if name == "arith.constant":
            self.set_results(op, [const_value(op.properties["value"])])
            return None
        if name in BINOPS:
            a, b = self.get(op.operands[0]), self.get(op.operands[1])
            w = width_of(op.results[0].type)
            if isinstance(a, Poison) or isinstance(b, Poison):
                self.set_results(op, [Poison()])
                return None
            if name in DIVS and (unsigned(b, w) == 0):
                self.set_results(op, [Poison()])
                return None
            self.set_results(op, [wrap(BINOPS[name](a, b, w), w)])
            return None
        if name in FBINOPS:
            a, b = self.get(op.operands[0]), self.get(op.operands[1])
            self.set_results(op, [FBINOPS[name](a, b)])
            return None
        if name == "arith.cmpi":
            a, b = self.get(op.operands[0]), self.get(op.operands[1])
            w = width_of(op.operands[0].type)
            self.set_results(op, [_cmpi(op.properties["predicate"].value.data, a, b, w)])
            return None
        if name == "arith.select":
            c, a, b = (self.get(o) for o in op.operands)
            self.set_results(op, [a if (c & 1) else b])
            return None
        if name in ("arith.index_cast", "arith.index_castui", "arith.extsi", "arith.trunci", "arith.extui"):
            a = self.get(op.operands[0])
            if isinstance(a, Poison):
                self.set_results(op, [a])
                return None
            wi, wo = width_of(op.operands[0].type), width_of(op.results[0].type)
            if name in ("arith.extui", "arith.index_castui"):
                a = unsigned(a, wi)
            self.set_results(op, [wrap(a, wo)])
            return None
        if name == "scf.for":
            return self._for(op)
        if name == "scf.if":
            return self._if(op)
        if name == "scf.while":
            return self._while(op)
        if name == "builtin.unrealized_conversion_cast" and len(op.operands) == len(op.results):
            self.set_results(op, [self.get(o) for o in op.operands])
            return None
        raise InterpError(f"unsupported op {name}")

    def _for(self, op):
        lb, ub, step = (self.get(o) for o in op.operands[:3])
        iters = [self.get(o) for o in op.operands[3:]]
        if step <= 0:
            raise InterpError("scf.for with non-positive step")
        i = lb
        body = op.regions[0]
        hook = self.handlers.get("@for_iter")
        while i < ub:
            if hook:
                hook(self, op, i)
            term, vals = self.run_region(body, [i] + iters)
            iters = vals
            i += step
        self.set_results(op, iters)
        hook = self.handlers.get("@for_done")
        if hook:
            hook(self, op)
        return None

    def _if(self, op):
        c = self.get(op.operands[0])
        region = op.regions[0] if (c & 1) else op.regions[1]
        if not region.blocks:
            if op.results:
                raise InterpError("scf.if with results but empty region")
            return None
        term, vals = self.run_region(region, [])
        self.set_results(op, vals)
        return None

    def _while(self, op):
        args = [self.get(o) for o in op.operands]
        while True:
            term, vals = self.run_region(op.regions[0], args)
            if not (vals[0] & 1):
                self.set_results(op, vals[1:])
                return None
            term, args = self.run_region(op.regions[1], vals[1:])


def find_func(module, name=None):
    for op in module.walk():
        if op.name == "func.func" and (name is None or op.sym_name.data == name) and op.body.blocks:
            return op
    raise InterpError(f"no function {name}")
