"""N-core barrier machine and its explicit-state interleaving explorer (trusted base; DESIGN.md 2.3 `cores.py`).

Each core has a list of events:
   ("op", key, reads, writes, kind)   one atomic step: observes the terms of `reads`, writes a new term into every buffer of `writes`
   ("barrier",)                        cluster-wide hardware barrier: blocks until every core is at a barrier (or ...)
   ("dealloc", buf)                    the buffer dies; any later access to it is an error
Between barriers every interleaving of whole ops is possible. State = (per-core position, memory terms, per-op observations,
dead buffers). The explorer is a plain BFS with hashing of the full state; it reports
   deadlock            some core waits at a barrier that another core never reaches (finished / no more barriers)
   outcomes            the set of distinct (final memory, observations) over all maximal executions
   use-after-dealloc   an op touched a dead buffer in some interleaving
"""
from __future__ import annotations

import collections


def term_copy(src_term):
    return src_term


def explore(lists, init_mem, max_states=200000):
    ncores = len(lists)
    init = (tuple(0 for _ in lists), tuple(sorted(init_mem.items())), (), frozenset())
    seen = {init}
    frontier = collections.deque([init])
    finals = set()
    problems = []
    transitions = 0
    multi_enabled_states = 0
    while frontier:
        st = frontier.popleft()
        pos, mem_t, obs_t, dead = st
        mem = dict(mem_t)
        nxt = []
        at_barrier = [p < len(l) and l[p][0] == "barrier" for p, l in zip(pos, lists)]
        done = [p >= len(l) for p, l in zip(pos, lists)]
        movers = [c for c in range(ncores) if not done[c] and not at_barrier[c]]
        if len(movers) >= 2:
            multi_enabled_states += 1
        for c in movers:
            e = lists[c][pos[c]]
            np_ = pos[:c] + (pos[c] + 1,) + pos[c + 1 :]
            if e[0] == "op":
                _, key, reads, writes, kind = e
                touched = set(reads) | set(writes)
                if touched & dead:
                    problems.append(("use-after-dealloc", f"core {c}: op {key} touches buffer(s) {sorted(touched & dead)} after another core deallocated them"))
                    continue
                seen_terms = tuple(mem[b] for b in reads)
                m2 = dict(mem)
                for b in writes:
                    m2[b] = seen_terms[0] if kind == "copy" else ("f", key[0], seen_terms)
                nxt.append((np_, tuple(sorted(m2.items())), tuple(sorted(obs_t + ((key, seen_terms),))), dead))
            elif e[0] == "dealloc":
                nxt.append((np_, mem_t, obs_t, dead | {e[1]}))
            else:
                raise ValueError(e)
        if not movers:
            if all(done):
                finals.add((mem_t, obs_t))
                continue
            if all(at_barrier[c] or done[c] for c in range(ncores)):
                if any(done) :
                    waiting = [c for c in range(ncores) if at_barrier[c]]
                    problems.append(("deadlock", f"core(s) {waiting} wait at a cluster barrier that core(s) {[c for c in range(ncores) if done[c]]} never reach"))
                    continue
                # all at barrier: release together
                nxt.append((tuple(p + 1 for p in pos), mem_t, obs_t, dead))
        for s in nxt:
            transitions += 1
            if s not in seen:
                if len(seen) >= max_states:
                    problems.append(("state-cap", f"more than {max_states} states"))
                    return finals, problems, len(seen), transitions, multi_enabled_states
                seen.add(s)
                frontier.append(s)
    return finals, problems, len(seen), transitions, multi_enabled_states


def sequential(events, init_mem):
    """reference: one core executes everything in program order (barriers / deallocs ignored)"""
    mem = dict(init_mem)
    obs = []
    for e in events:
        if e[0] != "op":
            continue
        _, key, reads, writes, kind = e
        seen_terms = tuple(mem[b] for b in reads)
        for b in writes:
            mem[b] = seen_terms[0] if kind == "copy" else ("f", key[0], seen_terms)
        obs.append((key, seen_terms))
    return tuple(sorted(mem.items())), tuple(sorted(obs))
