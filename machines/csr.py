"""CSR / RoCC level machine (trusted base): executes the inline assembly the lowering emits.

  "csrw $0, $1"  operands (addr, value)   -> event ("w", addr, value)
  "csrr $0, $1"  operands (addr) -> value -> event ("r", addr, answer); the answer is chosen by the environment
  ".insn r CUSTOM_<x>, 0x3, <f7> ,x0, $0, $1" operands (rs1, rs2) -> event ("insn", x, f7, rs1, rs2)
  "nop"          -> nothing
Any other assembly string is an InterpError (harness limitation, surfaced loudly).
Environment for reads: `poll(addr)` callable.
"""
from __future__ import annotations

import re

from .ir import Interp, InterpError

_INSN = re.compile(r"^\.insn r CUSTOM_(\d+), 0x3, (\d+) ?,x0, \$0, \$1$")


class CsrMachine:
    def __init__(self, poll):
        self.events = []
        self.poll = poll

    def h_asm(self, it: Interp, op):
        s = op.asm_string.data
        vals = [it.get(o) for o in op.operands]
        if s == "csrw $0, $1":
            self.events.append(("w", vals[0], vals[1]))
            return []
        if s == "csrr $0, $1":
            ans = self.poll(vals[0])
            self.events.append(("r", vals[0], ans))
            return [ans]
        if s == "nop":
            return []
        m = _INSN.match(s)
        if m:
            self.events.append(("insn", int(m.group(1)), int(m.group(2)), vals[0], vals[1]))
            return []
        raise InterpError(f"unknown inline asm {s!r}")

    def h_call(self, it, op):
        callee = op.callee.string_value() if getattr(op, "callee", None) is not None else "?"
        self.events.append(("calln" if callee.startswith("annotated") else "call", callee))
        return [0 for _ in op.results]

    def handlers(self):
        return {"llvm.inline_asm": self.h_asm, "func.call": self.h_call, "llvm.call": self.h_call}
