"""accfg-level accelerator register machine (trusted base; DESIGN.md 2.3 `csr.py`, accfg level).

regs[acc][field]: last value written; before any write / after a havoc a fresh token ("?", epoch, acc, field).
accfg.setup writes its named fields (in operand order); accfg.launch appends ("launch", acc, snapshot, launch values);
accfg.await appends ("await", acc); an effecting call appends ("call", callee) and havocs every accelerator
(an annotated no-effect call appends ("calln", callee) and does nothing); accfg.reset havocs one accelerator silently
(it only tells the compiler to forget).
"""
from __future__ import annotations

from .ir import Interp


class Tok:
    __slots__ = ("t",)

    def __init__(self, *t):
        self.t = t

    def __eq__(self, o):
        return isinstance(o, Tok) and o.t == self.t

    def __hash__(self):
        return hash(self.t)

    def __repr__(self):
        return "?" + "/".join(map(str, self.t))


class AccMachine:
    def __init__(self, fields_of, effects_of=None):
        """fields_of(acc) -> tuple of field names (for initial tokens)"""
        self.fields_of = fields_of
        self.regs: dict[str, dict[str, object]] = {}
        self.epoch: dict[str, int] = {}
        self.writes: dict[str, int] = {}
        self.global_epoch = 0
        self.trace = []
        self.on_setup = None  # hook(machine, interp, op) after the write
        self.on_setup_pre = None

    def file(self, acc):
        if acc not in self.regs:
            self.regs[acc] = {f: Tok(self.global_epoch, acc, f) for f in self.fields_of(acc)}
            self.epoch[acc] = self.global_epoch
            self.writes[acc] = 0
        return self.regs[acc]

    def havoc_all(self):
        self.global_epoch += 1
        for acc in list(self.regs):
            self.regs[acc] = {f: Tok(self.global_epoch, acc, f) for f in self.regs[acc]}
            self.epoch[acc] = self.global_epoch
        # accelerators not seen yet get tokens of the current epoch lazily (file())

    def snapshot(self, acc):
        return tuple(sorted(self.file(acc).items(), key=lambda kv: kv[0]))

    # ---- handlers
    def h_setup(self, it: Interp, op):
        acc = op.accelerator.data
        f = self.file(acc)
        if self.on_setup_pre:
            self.on_setup_pre(self, it, op)
        for name, val in op.iter_params():
            f[name] = it.get(val)
            self.writes[acc] += 1
        if op.in_state is not None:
            it.get(op.in_state)  # availability (use-before-def)
        if self.on_setup:
            self.on_setup(self, it, op)
        return [("state", acc)]

    def h_launch(self, it: Interp, op):
        acc = op.accelerator.data
        it.get(op.state)
        lv = tuple((n, it.get(v)) for n, v in op.iter_params())
        self.trace.append(("launch", acc, self.snapshot(acc), lv))
        return [("token", acc)]

    def h_await(self, it: Interp, op):
        tok = it.get(op.token)
        self.trace.append(("await", tok[1]))
        return []

    def h_reset(self, it, op):
        it.get(op.in_state)
        return []

    def h_call(self, it: Interp, op):
        callee = op.callee.string_value() if hasattr(op, "callee") and op.callee is not None else "?"
        # semantics of the environment, independent of the compiler's analysis: external functions named
        # `annotated*` do not touch accelerator state (their call sites carry accfg.effects<none>, the contract by
        # which the IR provider promises this); every other external function may reconfigure everything.
        for o in op.operands:
            it.get(o)
        if callee.startswith("annotated"):
            self.trace.append(("calln", callee))
        else:
            self.trace.append(("call", callee))
            self.havoc_all()
        if op.results:
            return [0 for _ in op.results]
        return []

    def handlers(self):
        return {
            "accfg.setup": self.h_setup,
            "accfg.launch": self.h_launch,
            "accfg.await": self.h_await,
            "accfg.reset": self.h_reset,
            "func.call": self.h_call,
            "llvm.call": self.h_call,
        }
