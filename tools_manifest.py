#!/usr/bin/env python3
"""Regenerates MANIFEST.json from the per-check registry below (keeps it valid at all times)."""
import json
import os

HERE = os.path.dirname(os.path.abspath(__file__))

CHECKS = {}


def reg(pid, text, note, technique, design_ref):
    CHECKS[pid] = dict(text=text, note=note, technique=technique, design_ref=design_ref)


reg(
    "C10",
    "Bounded-exhaustive enumeration of every tiled-strided layout in a finite family (all rank/depth shapes up to 4 strides in total, every "
    "stride from a bound x step menu, dynamic outermost entries, offsets); each layout is evaluated on every index of its box by every view the "
    "repository has of it (affine map, all_values, overlap/density predicates, tile bounds, print->parse, canonicalize, from_strides, executed "
    "bound/step ops, common contiguous block for all pairs with equal tile bounds, subview pointer arithmetic) and compared with an independent "
    "mixed-radix evaluator. No sampling; a realistic slip in any one view changes some address of some enumerated layout.",
    "Trusted: machines/layout.py (15-line reference), machines/ir.py arithmetic; offset is checked via print/parse only (offset-free convention of the affine map); "
    "layouts beyond the menus (bounds > 4, > 5 strides) are not covered.",
    "explicit enumeration of a finite input domain x all index points against a reference evaluator (bounded model checking of a pure function)",
    "DESIGN.md 4.3 C10",
)

reg(
    "C01",
    "Every program of a bounded grammar (full-field setup+launch+await, opaque calls, scf.for with run-time bounds and induction-derived values, "
    "scf.if on arguments and on induction parity, nesting <= 2/3, one and two accelerators; <= 4/5 statement nodes) is pushed through the real "
    "accfg-trace-states and accfg-dedup (hoist on and off); input and output IR are executed on an accelerator register machine for every vector "
    "of loop bounds (trip counts 0,1,2,3; lb != 0; step != 1) and branch outcomes, and the launch/await/call traces with full register snapshots "
    "must be identical. Exhaustive within the bound; reaches alternating-configuration loop bodies, zero-trip loops and calls nested in control flow.",
    "Trusted: machines/ir.py (scf/arith semantics), machines/accm.py (register machine: a launch observes the whole file, an unannotated call havocs). "
    "Programs beyond the node/nesting bound and accelerators with launch parameters are not covered here (C04 covers launch values).",
    "bounded-exhaustive program enumeration x exhaustive run-time input enumeration, trace equality on an abstract machine (explicit-state)",
    "DESIGN.md 4.1 C01",
)
reg(
    "C07",
    "Same program space extended with annotated / llvm calls, scf.while wrappers and re-traced (already threaded) variants. While the traced IR "
    "executes on the register machine for every input vector, the real infer_state_of() is called at every definition of a state-typed SSA value "
    "(setup results, loop block arguments on each iteration, loop and if results) and two invariants are evaluated in that machine state: every "
    "assumed field value equals the register, and every setup is threaded to the state that really precedes it on the executed path.",
    "Trusted: machines/ir.py, machines/accm.py. Invariants compare run-time values of SSA atoms chosen pairwise distinct.",
    "explicit-state exploration of program x input space with a state invariant evaluated at every state-defining step, calling the real inference",
    "DESIGN.md 4.1 C07",
)

reg(
    "C06",
    "The real trace+dedup output of every bounded G_acc program (setups fed by pure chains over induction variables, outer induction variables and "
    "arguments; run-time and constant loop bounds incl. constant zero-trip; calls; ifs; two accelerators) is pushed through the real "
    "accfg-config-overlap (thorough: also + insert-resets, + dedup again). Both IRs execute on the register machine for every loop-bound and branch "
    "vector; launch/await/call traces with full register snapshots must be equal and the interpreter rejects any use of a not-yet-defined value.",
    "Trusted: machines/ir.py, machines/accm.py (a launch snapshots the register file; a setup between launch and await is invisible to it). "
    "Loop-carried non-state iter_args are not in the grammar.",
    "bounded-exhaustive program enumeration x exhaustive run-time input enumeration, trace equality on an abstract machine (explicit-state)",
    "DESIGN.md 4.1 C06",
)

reg(
    "C04",
    "C04a: every bounded G_acc program over three real accelerators (snax_hwpe_mult: 6 fields, polling barrier + clear; snax_alu: 17 fields, two launch "
    "registers; gemmini: RoCC pairs) goes through the real trace+dedup(+overlap) and convert-accfg-to-csr. The accfg-level IR yields the expected "
    "access segments from the *declared* register map; the lowered IR runs on a CSR/RoCC machine where the environment chooses every barrier poll "
    "answer (all sequences with <= 2 deviations, <= 3 busy polls; livelock = step horizon). Exactly one write per configured field to its declared "
    "address, launches to declared launch registers with their values, awaits polling the declared barrier until done, order vs calls preserved, RoCC "
    "pair registers equal to the configured values at every launch, no accfg value or op left. C04b: register maps of ~670 accelerator x streamer "
    "configurations are injective, 12-bit, keep the reserved status registers free and list fields in declared order.",
    "Trusted: machines/csr.py (meaning of the three inline-asm strings), machines/accm.py. PHS register maps are covered by C08/C20 (need a PE).",
    "bounded-exhaustive program x input x environment-answer (poll) enumeration with deviation bounding; finite-domain exhaustion of register maps",
    "DESIGN.md 4.1 C04",
)

reg(
    "C19",
    "Finite-domain exhaustion of the canonicalisers and representation changes: all affine expression trees with <= 3 (thorough 4) operators over "
    "+,*,floordiv,mod evaluated on every point of [-3,6]^2 before/after canonicalize_expr/canonicalize_map (+ idempotence, termination); all small integer "
    "matrices through AffineTransform from/to map, eval, compose; AccessPattern canonicalize/inner_dims/clear_unused_dims as index multisets; all stride "
    "patterns with <= 4 temporal dims (zero bounds/strides, unit bounds) as address *sequences* before/after canonicalize + print->parse; pack_bitlist "
    "executed on the IR machine for all value/offset lists; streamer configuration attributes print->parse compared structurally.",
    "Trusted: the independent evaluators in checks/C19.py and machines/stream.py (address sequence), machines/ir.py (shli/ori). Values beyond the menus are not covered.",
    "explicit enumeration of finite input domains x all evaluation points against reference evaluators",
    "DESIGN.md 4.5 C19",
)

reg(
    "C03",
    "Finite-domain exhaustion: every access matrix over a small entry set x every bounds vector from {1,2,3,4,5,6,8} for 1-3 operands and 1-3 iteration dims, "
    "matmul maps under all dimension permutations with single-entry perturbations, against nine templates (bounded, unbounded, tiled, matmul, broadcast-row, "
    "rank-mismatched) and subsets of the extra checks; for EVERY schedule yielded by the real scheduler_backtrack the multiset of operand-index tuples over "
    "the whole iteration box must equal the original's, a harness-side wrapper asserts that the scheduler only ever tiles dividing bounds, and each elementary "
    "transformation (rotate, tile_dim, add_dim, clear_unused_dims, canonicalize) is checked on its own on every small matrix.",
    "Trusted: multiset evaluation with numpy integer arithmetic. Matrices with entries beyond the menu / more than 3 iteration dims (4 with batch) not covered.",
    "explicit enumeration of a finite argument domain, all backtracking results, multiset equality over all points of the index box",
    "DESIGN.md 4.2 C03",
)
reg(
    "C16",
    "Same enumeration as C03; every yielded schedule is re-decided against the template by an exact matcher (row-space equality over Q by Fraction Gaussian "
    "elimination with the documented broadcast-row rule), inner bounds are compared with the template bounds, every requested constraint is re-evaluated by an "
    "independent implementation written from its docstring, and the template-matching predicate itself is compared with exact row-space equality on ~700k "
    "pairs of small integer matrices (where a float tolerance or a transposed projector would show).",
    "Trusted: the exact matcher and the re-implemented constraints in checks/sched_common.py.",
    "explicit enumeration of a finite argument domain, all backtracking results, exact-arithmetic reference predicate",
    "DESIGN.md 4.2 C16",
)

reg(
    "C17",
    "All loop nests up to depth 3 with every (lb, ub, step) from a menu (ub not a multiple of the step, zero-trip, lb != 0 included), each bound constant or "
    "a run-time argument, and every placement of tagged side-effecting / pure ops before and after the inner loop, go through the real "
    "pipeline-canonicalize-for; a family of allocation / memref.dim / subview / affine.min placements in single, nested and conditional loops goes through "
    "the real reuse-memref-allocs. Input and output are executed and the sequences of (tag, evaluated index operands, run-time shapes of memref operands) "
    "must be identical; use-before-def is detected by the interpreter.",
    "Trusted: machines/ir.py, machines/memview.py. Loop-carried values (iter_args) and depth > 3 are outside the enumerated space; part B is a hand-listed family (72 programs x 3 shapes).",
    "bounded-exhaustive program enumeration, execution trace equality on an abstract machine",
    "DESIGN.md 4.4 C17",
)

reg(
    "C13",
    "Every program with <= 3 (thorough 4) data-movement / compute ops over three shared buffers (all operand choices; buffer c also as a local allocation "
    "with trailing dealloc, through one subview alias, or through two different subview aliases), with pre-existing barriers, straight-line and in loops, goes "
    "through the real insert-sync-barrier and dispatch-regions. The output is interpreted once per core id to get per-core event lists; an explicit-state "
    "BFS then explores ALL interleavings of whole ops between barriers for every trip-count vector. Any deadlock (a barrier some core never reaches), any "
    "reachable outcome whose per-op observed inputs or final buffer contents differ from the sequential reference, and any access to a buffer another core "
    "already deallocated is a violation.",
    "Trusted: machines/cores.py (whole-op atomicity, barrier = all cores), machines/memview.py (subview aliasing by buffer identity). Buffers are whole objects; element-granular overlap is not modelled.",
    "explicit-state model checking of all core interleavings between barriers, on event lists produced by the real passes, against a sequential reference",
    "DESIGN.md 4.4 C13",
)
reg(
    "C14",
    "Every program with <= 5 nodes over {DM copy, linalg.generic, dart streaming region, test.op on induction variables, barrier} nested in scf.for / scf.if "
    "(with and without else), depth <= 2, goes through the real dispatch-regions for 2 and 3 (thorough 4) cores and then the upstream "
    "function-constant-pinning. For every core id, trip-count vector and branch outcome the executed tagged-op trace must equal the original trace filtered "
    "by {DM -> core n-1, compute -> core 0, other -> all}, also after pinning.",
    "Trusted: machines/ir.py incl. execution of internal func.call. Multi-block (cf.br) functions are not generated.",
    "bounded-exhaustive program x core id x run-time input enumeration, trace equality against the filtered original",
    "DESIGN.md 4.4 C14",
)

reg(
    "C15",
    "Every loop of the recognised shape with 2-4 barrier-separated stages (DM/compute alternating, either first; tile or whole-buffer input/output; extra "
    "read-only operand; two loads in one stage) x 10 (lb, ub, step) triples (trip counts 0..6 incl. fewer than the number of stages, lb != 0, step != 1) x "
    "constant / run-time upper bound goes through the real construct-pipeline, pipeline-duplicate-buffers, unroll-pipeline and dispatch-regions. Per-core "
    "event lists are explored under ALL interleavings between barriers; every reachable outcome must give each stage of each iteration exactly the inputs "
    "the sequential loop gives it, the same final contents of every function-visible tile, no tile outside the iteration range, no deadlock.",
    "Trusted: machines/cores.py, machines/memview.py; tiles are objects, local buffers whole objects.",
    "explicit-state model checking of all core interleavings between barriers against the sequential loop",
    "DESIGN.md 4.4 C15",
)

reg(
    "C05",
    "Every (shape, element width, source layout, destination layout) of a finite family - rank 1-2 (thorough 3), all shapes over {1,2,3,4,6} up to 48 elements, "
    "layouts none / row- and column-major / padded / gapped strides / static and dynamic offsets / tiled-strided with every 2-level factorisation and several "
    "stride orders and gaps / dynamic outermost tiles - is lowered by the real snax-copy-to-dma and the emitted loops and DMA calls are executed on a flat "
    "byte memory holding one unique token per source byte and poison elsewhere. Every destination element byte must hold the token of the same logical "
    "element at the address the destination layout assigns (independent evaluator), all reads inside the source footprint, all writes inside the destination footprint.",
    "Trusted: machines/bytesm.py (1-D/2-D DMA semantics from snax_rt.h), machines/layout.py, machines/memview.py. TSL-TSL pairs have equal tile bounds (documented precondition).",
    "explicit enumeration of a finite input domain, execution of the emitted code on an abstract byte machine, element-wise comparison with a reference layout evaluator",
    "DESIGN.md 4.3 C05",
)

reg(
    "C18",
    "Every linalg.generic body with 1-2 ops (all), 3 ops over three block arguments, every ordering and wiring of the sign-extending mac's op kinds, and the "
    "quantised mac body with every single-operand substitution and swap - over operand widths {i8,i32} (thorough adds i16/i64 and all 3-4-op bodies) - goes "
    "through the real convert-linalg-to-kernel and, when a kernel is recognised, convert-kernel-to-linalg. The scalar function before is compared, on all "
    "tuples of boundary values of each operand width, with an independent semantics of the named kernel and with the kernel's own expansion; unrecognised "
    "bodies must be textually unchanged. dispatch-kernels is run on every kernel x operand-type combination x accelerator declaration: library_call only if "
    "that kernel with exactly those types is declared. LowerRescale is compared with the repository's golden model over a parameter grid and extreme inputs.",
    "Trusted: wrap-around integer semantics in machines/ir.py, kernel meanings from kernel.py docstrings, util/gemmx/simd_golden_model.py as the rescale reference (double_round = 0, one channel: the documented scope of LowerRescale). convert-tosa-to-kernel is not covered (the tree's tosa.rescale syntax does not parse with the installed xDSL).",
    "bounded-exhaustive enumeration of bodies x all boundary input tuples, functional equivalence by evaluation",
    "DESIGN.md 4.5 C18",
)

reg(
    "C20",
    "Explicit-state search over merge histories: kernel bodies with 1-2 integer ops over two (and three) data inputs with every routing (swapped operands, an "
    "input used twice, second op consuming the first on either side) are merged by the real convert_generic_body_to_phs + append_to_abstract_graph; all "
    "histories of length <= 2 over the full alphabet and <= 3 over a sub-alphabet (thorough: <= 3 full, <= 5 sub), deduplicated by the printed abstract PE. "
    "In EVERY state each kernel of the history is decoded by the real decode_abstract_graph and the merged PE, evaluated under those switch values on "
    "{-2..3,7}^n, must compute that kernel; number of values = get_true_switches() = number of phs_switch fields of SNAXPHSAccelerator.",
    "Trusted: machines/pe.py (choose = case by switch, mux = rhs iff 1). Integer i32 kernels only (float kernels not enumerated).",
    "explicit-state exploration of operation histories over the real transition function with an invariant evaluated in every state",
    "DESIGN.md 4.5 C20",
)

reg(
    "C11",
    "size: every allocation type over a layout family (none / tiled-strided with gaps, padding, offsets, dynamic outermost tiles; widths 1-8 bytes) goes through "
    "the real memref-to-snax, the emitted size computation is executed for every run-time shape and must cover the highest byte the layout touches "
    "(independent evaluator). static: every sequence of <= 3 (thorough 4) allocations over size/alignment/memory menus through snax-allocate{static}: aligned, "
    "disjoint, inside the memory window. minimalloc/auto: every allocation/use history over 2-3 buffers (direct uses, uses through a subview, uses in "
    "loops, late allocation) with the SOLVER AS ENVIRONMENT: every placement on an offset grid that is valid for the lifetimes the pass declared is fed "
    "back (25k solver answers in quick), the output is executed, and buffers with intersecting address ranges must never have interleaved uses through "
    "any view; an inserted dealloc never precedes a later use.",
    "Trusted: compat/stubs/minimalloc.py (solver contract: half-open lifetimes, any conflict-free aligned placement), machines/layout.py, handlers for the llvm struct ops in checks/C11.py. The real minimalloc package is absent: all valid answers are explored instead of one heuristic answer.",
    "exhaustive enumeration of operation histories x all environment (solver) answers, executed-trace liveness invariant",
    "DESIGN.md 4.3 C11",
)

reg(
    "C12",
    "prog: every public function with <= 3 (thorough 4) accelerator ops over two argument buffers and a local allocation (all reader/writer orders, ops at top "
    "level or inside an scf.for with 0-2 trips) goes through the real set-memory-space + realize-memref-casts; input (casts = aliases) and output are "
    "executed on a symbolic buffer machine: every op instance must read the same contents, argument buffers must end with the same contents, all "
    "accelerator operands in L1, the signature keeps L3, no use before definition. const: transform_constant, and the arith.constant / memref.global "
    "rewrite patterns, for every dense 2-level tiled-strided layout (every factorisation x stride order) of six shapes: new[addr(idx)] == old[rowmajor(idx)]; "
    "transpose_tuple for all r,c <= 5.",
    "Trusted: buffer machine in checks/C12.py (whole-buffer symbolic contents), machines/layout.py. Accelerator outputs that stand in for a cast are write-only (bodies reading their output argument are generated only on the local L1 buffer): the documented contract of RealizeMemrefCasts. Hand-placed layout-cast chains and subviews in front of operands are not generated for the program part.",
    "bounded-exhaustive program enumeration x run-time inputs on an abstract machine; finite-domain exhaustion for constants",
    "DESIGN.md 4.3 C12",
)

reg(
    "C09",
    "Every dart.schedule of a finite family - matmul tile loops in all 6 orders with every (outer, inner) bound pair per dimension and five element-width "
    "vectors, conv-like halo accesses, elementwise 1-D / 2-D with row and transposed access, an operand dimension the schedule never indexes, operands with "
    "a pre-existing TSL; gemmx and ALU templates; tiled true/false - goes through the real set-memory-layout. For every inserted snax.layout_cast the chosen "
    "layout is evaluated on every index of the operand's box by the independent evaluator: injective, tile bounds cover exactly the shape, static; ops with "
    "a pre-existing TSL operand are untouched.",
    "Trusted: machines/layout.py. Schedules are constructed directly (not only those the scheduler would pick); 4-D conv schedules of the size in the upstream test are not enumerated.",
    "explicit enumeration of a finite input domain, all index points against a reference evaluator",
    "DESIGN.md 4.2 C09",
)

reg(
    "C08",
    "For every accelerator x streamer configuration of a menu (ALU: each of 3 streamers varied over temporal dims/flags, spatial dims and every subset of the four "
    "options; gemmx: three geometries x six kernel forms; xDMA: mask options x extension subsets; PHS: accelerators built from merge histories) and marker stride "
    "patterns of every temporal length (all bounds/strides pairwise distinct primes, zero-pointer operands, reuse dims) the real convert_to_acc_ops runs on a "
    "real snax_stream.streaming_region next to the generate_acc_op() declaration; the constants feeding accfg.setup are folded on the IR machine and compared "
    "BY FIELD NAME with the meaning of each register (pointers, padded bounds/strides, masks, broadcast flag, packed csr0/subtractions/shifts, multipliers, "
    "K*N*M and loop counts = number of stream steps, PHS switches = decoded values); value count = field count, names in declared order.",
    "Trusted: register meanings listed in checks/C08.py ASSUMPTIONS (from snax.py / snax_gemmx.py comments); the transpose register is checked for presence only; snax_hwpe_mult's linalg path and YAML-driven configurations (dacite absent) are not covered.",
    "explicit enumeration of a finite configuration x input domain against a by-name reference",
    "DESIGN.md 4.2 C08",
)

reg(
    "C02",
    "dart.operation programs for snax_gemmx (matmul to i32 with and without zero points, matmul through a rescale stage to i8, gemm with C operand; M,N,K in "
    "{8,16,24}) and snax_alu (1-D lengths 4..64, 2-D shapes) with the layouts chosen by the real set-memory-layout (tiled / untiled) or one operand at a time "
    "given a hand-written tiled-strided layout (tile order swapped, column-major inner tile, padded tile strides) go through the real insert-accfg-op, "
    "dart-scheduler, set-memory-layout, dart-layout-resolution, convert-dart-to-snax-stream incl. each accelerator's set_stride_patterns. For every operand the "
    "sequence of byte sets the streamer touches per temporal step of its final StridePattern must equal, step by step, the byte sets of the elements the "
    "schedule assigns to that step under the operand's layout (independent evaluators for streamer, schedule and layout); every operand streamed by exactly one enabled streamer.",
    "Trusted: machines/stream.py (8-byte ports, index 0 fastest), machines/layout.py, the schedule reading in checks/C02.py. snax_xdma extensions are not covered (no registered accelerator instance; the AddExtension's hard-coded 512-byte operand distance is noted in DESIGN.md). 20 recorded known findings (given layouts with a column-major inner tile).",
    "bounded-exhaustive program enumeration, step-by-step comparison of two executed address streams against independent reference evaluators",
    "DESIGN.md 4.2 C02",
)

NOT_APPLICABLE = []

ALL = [f"C{i:02d}" for i in range(1, 21)]
PENDING_REASON = "check not built yet in this round (planned, see DESIGN.md section 4); not claimed until its checker exists and is quiet on the unchanged tree"


def main():
    checks = []
    for pid in ALL:
        if pid not in CHECKS:
            continue
        c = CHECKS[pid]
        checks.append(
            dict(
                property_id=pid,
                quick_cmd=f"/venv/bin/python run_check.py {pid} --tier quick",
                thorough_cmd=f"/venv/bin/python run_check.py {pid} --tier thorough --cap 1500",
                evidence_file=f"/verif/evidence/{pid}.json",
                replay_cmd_template=f"/venv/bin/python run_check.py {pid} --replay {{path}}",
                engine="mc",
                level_claimed=dict(category="model_checking", text=c["text"], design_ref=c["design_ref"]),
                level_note=c["note"],
                technique=c["technique"],
            )
        )
    na = list(NOT_APPLICABLE) + [dict(property_id=p, reason=PENDING_REASON) for p in ALL if p not in CHECKS and p not in {n["property_id"] for n in NOT_APPLICABLE}]
    man = dict(
        version=1,
        setup_cmd="/venv/bin/python -c \"import sys; sys.path.insert(0,'/verif'); import mc.common as c; c.main(); print('verif setup ok')\"",
        hooks=dict(
            guard="SNAX_MLIR_VERIF",
            enable="no source hooks: checks import /repo's working tree directly (VERIF_REPO overrides the path); SNAX_MLIR_VERIF=1 is set by run_check.py for completeness",
            baseline_off_cmd="cd /repo && /venv/bin/python -m pytest -ra -q -p no:cacheprovider --timeout=900 --continue-on-collection-errors",
            source_commits=[],
            add_only=True,
        ),
        engines=[
            dict(
                name="mc",
                path="/verif/mc",
                serves_properties=sorted(CHECKS),
                kind_free_text="hand-written bounded-exhaustive explorer: index-addressable program/argument spaces sharded over 16 forked workers, "
                "explicit-state BFS and deviation-bounded choice enumeration (mc/explore.py), abstract machines for the generated code (machines/), "
                "oracle = reference model or state invariant on every execution",
            )
        ],
        checks=checks,
        not_applicable=na,
        notes="All checks run the real passes of /repo's working tree (no build step; a compat shim adapts the installed xDSL 0.70). "
        "known_findings.json lists recorded/fixed genuine defects; replays/ holds violation replay files.",
    )
    with open(os.path.join(HERE, "MANIFEST.json"), "w") as f:
        json.dump(man, f, indent=1)
        f.write("\n")
    print(f"MANIFEST.json: {len(checks)} checks, {len(na)} not_applicable")


if __name__ == "__main__":
    main()
