#!/venv/bin/python
"""Entry point registered in MANIFEST.json:  run_check.py <ID> [--tier quick|thorough] [--replay file]"""
import argparse
import importlib
import json
import os
import sys

HERE = os.path.dirname(os.path.abspath(__file__))
if os.environ.get("PYTHONHASHSEED") != "0":
    os.environ["PYTHONHASHSEED"] = "0"
    os.execv(sys.executable, [sys.executable] + sys.argv)
sys.path.insert(0, HERE)
sys.setrecursionlimit(10000)


def main():
    ap = argparse.ArgumentParser()
    ap.add_argument("pid")
    ap.add_argument("--tier", default=os.environ.get("VERIF_TIER", "quick"))
    ap.add_argument("--replay")
    ap.add_argument("--cap", type=float, default=None)
    a = ap.parse_args()
    os.environ.setdefault("SNAX_MLIR_VERIF", "1")
    import compat  # noqa: F401
    mod = importlib.import_module(f"checks.{a.pid}")
    if a.replay:
        doc = json.load(open(a.replay))
        res = mod.replay(doc["case"])
        if res:
            for key, case, what in res:
                print(f"VIOLATION property={a.pid} replay={a.replay}\n  what: {what}")
            return 1
        print("replay: no violation")
        return 0
    from mc.driver import run_check

    seed = int(os.environ.get("VERIF_SEED", "0") or 0)
    return run_check(mod, a.tier, seed, a.cap)


if __name__ == "__main__":
    sys.exit(main())
